import SwiftMT.Dispatch
import SwiftMT.MParser
import SwiftMT.Calendar
import SwiftMT.Amount
import SwiftMT.Headers
import SwiftMT.Classify
import SwiftMT.Tokeniser
import SwiftMT.Fields.Registry
import SwiftMT.Rules
import SwiftMT.JsonShape
import SwiftMT.Block
import SwiftMT.Generated.FakeLangs
import Driver.Hex
/-
Line-protocol driver over the executable model: one request per line on stdin, one answer per line on
stdout.  Arguments are space separated; texts travel hex-encoded (UTF-8 bytes, "-" = empty).
Imports only model files (no proofs, no Mathlib) so that it links as a `lean_exe`.
-/
open SwiftMT Driver

def resStr : Dispatch.Res → String
  | .ok w b => s!"ok {w} {b}"
  | .mismatch => "mismatch"
  | .unsupported => "unsupported"

def c12 (args : List String) : String :=
  match args with
  | ["auto", c] => match c.toNat? with
      | some c => resStr (Dispatch.autoParse c) | none => "bad-op"
  | ["typed", r, a] => match r.toNat?, a.toNat? with
      | some r, some a => resStr (Dispatch.typedParse r a) | _, _ => "bad-op"
  | ["wrapper", c] => match c.toNat? with
      | some c => (match Dispatch.wrapperType c with | some t => s!"some {t}" | none => "none") | none => "bad-op"
  | ["pparse", c] => match c.toNat? with
      | some c => resStr (Dispatch.pluginParseRes c) | none => "bad-op"
  | ["pvalidate", c] => match c.toNat? with
      | some c => resStr (Dispatch.pluginValidateRes c) | none => "bad-op"
  | ["wvalidate", c] => match c.toNat? with
      | some c => resStr (Dispatch.wrapperValidateRes c) | none => "bad-op"
  | ["publish", al, c] => match c.toNat? with
      | some c => resStr (Dispatch.publishRes (al == "1") c) | none => "bad-op"
  | _ => "bad-op"

def perr : PErr → String
  | .duplicate _ => "dup"
  | .notFoundOptional _ => "nfo"
  | .missing t => s!"missing:{hex t}"

/-- One `MessageParser` operation; returns the printed result and the new state. -/
def mpOp (s : PState) (op : String) : String × PState :=
  match op.splitOn ":" with
  | ["pf", t] => match unhex t with
    | some tag => (match parseFieldRaw s tag with
        | .ok (c, s') => (s!"ok:{hex c}", s') | .error e => (s!"err:{perr e}", s))
    | none => ("bad-op", s)
  | ["po", t] => match unhex t with
    | some tag => (match parseOptionalRaw s tag with
        | (some c, s') => (s!"some:{hex c}", s') | (none, s') => ("none", s'))
    | none => ("bad-op", s)
  | ["pv", t] => match unhex t with
    | some base => (match parseVariantRaw s base with
        | .ok ((v, c), s') => (s!"ok:{hex v}:{hex c}", s') | .error e => (s!"err:{perr e}", s))
    | none => ("bad-op", s)
  | ["pov", t] => match unhex t with
    | some base => (match parseOptionalVariantRaw s base with
        | (some (v, c), s') => (s!"some:{hex v}:{hex c}", s') | (none, s') => ("none", s'))
    | none => ("bad-op", s)
  | ["df", t] => match unhex t with
    | some tag => (s!"{detectField s tag}", s) | none => ("bad-op", s)
  | ["dvo", t] => match unhex t with
    | some base => ((match detectVariantOptional s base with | some v => s!"some:{hex v}" | none => "none"), s)
    | none => ("bad-op", s)
  | ["pk", t] => match unhex t with
    | some base => ((match peekFieldVariant s base with | some v => s!"some:{hex v}" | none => "none"), s)
    | none => ("bad-op", s)
  | ["ic"] => (s!"{isComplete s}", s)
  | ["rem"] => (s!"{byteLen s.rest}", s)
  | ["dup", b] => ("ok", { s with allowDup := b == "1" })
  | _ => ("bad-op", s)

def mpRun (s : PState) (ops : List String) : List String :=
  match ops with
  | [] => []
  | op :: rest => let (o, s') := mpOp s op; o :: mpRun s' rest

/-- canonical rendering of the field map: tags sorted (bytewise), occurrences in input order -/
def canonToks (toks : List Tok) : String :=
  if toks.isEmpty then "-" else
  let tags := (toks.map (fun t => hex t.tag)).eraseDups
  let sorted := tags.toArray.qsort (· < ·) |>.toList
  ";".intercalate (sorted.map (fun tg =>
    tg ++ "=" ++ ",".intercalate ((toks.filter (fun t => hex t.tag == tg)).map (fun t => s!"{hex t.value}@{t.stamp}"))))

def parseVals (s : String) : List (String × List (List Char × Nat)) :=
  (s.splitOn ";").filterMap (fun grp =>
    match grp.splitOn "=" with
    | [t, vs] =>
      let vals := if vs == "-" then [] else (vs.splitOn ",").filterMap (fun v =>
        match v.splitOn "@" with
        | [a, b] => match unhex a, b.toNat? with | some a, some b => some (a, b) | _, _ => none
        | _ => none)
      some (t, vals)
    | _ => none)

/-- the tracker keeps one consumed set per tag -/
def trkRun (vals : List (String × List (List Char × Nat))) (reqs : List String) (st : List (String × List Nat)) : List String :=
  match reqs with
  | [] => []
  | r :: rest =>
    let get (t : String) : List Nat := ((st.find? (·.1 == t)).map (·.2)).getD []
    let put (t : String) (c : List Nat) : List (String × List Nat) := (t, c) :: st.filter (·.1 != t)
    match r.splitOn ":" with
    | ["n", t] =>
      let vs := ((vals.find? (·.1 == t)).map (·.2)).getD []
      let (o, c') := takeNext (get t) vs
      (match o with | some (v, p) => s!"{hex v}@{p}" | none => "none") :: trkRun vals rest (put t c')
    | ["m", t, p] => "ok" :: trkRun vals rest (put t ((p.toNat?.getD 0) :: get t))
    | _ => ["bad-op"]

def handle (args : List String) : String :=
  match args with
  | "c12" :: rest => c12 rest
  | ["ext", i, t] => match unhex i, unhex t with
    | some input, some tag => (match extractFieldContent input tag with
        | some (c, n) => s!"some {hex c} {byteLen (input.take n)}"
        | none => "none")
    | _, _ => "bad-op"
  | ["marker", i] => match unhex i with
    | some input => s!"{isFieldMarker input}"
    | none => "bad-op"
  | ["date", i] => match unhex i with
    | some t => (match parseDateYYMMDD t with
        | some x => s!"some {x.y} {x.m} {x.d} {hex (printYYMMDD x)}" | none => "none")
    | none => "bad-op"
  | ["json13d", i] => match unhex i with
    | some t => (match json13dDecode t with | some x => s!"some {x.y} {x.m} {x.d}" | none => "none")
    | none => "bad-op"
  | ["time", i] => match unhex i with
    | some t => (match parseTimeHHMM t with | some (h, m) => s!"some {h} {m}" | none => "none")
    | none => "bad-op"
  | ["offset", sg, i] => match unhex sg, unhex i with
    | some [c], some t => (match parseOffset c t with | some (_, h, m) => s!"some {h} {m}" | none => "none")
    | some _, some _ => "none"
    | _, _ => "bad-op"
  | ["amt", i] => match unhex i with
    | some t => (match parseAmount t with | some d => s!"some {d.mant} {d.scale}" | none => "none")
    | none => "bad-op"
  | ["amtlen", i, n] => match unhex i, n.toNat? with
    | some t, some n => (match parseAmountMaxLen t n with | some d => s!"some {d.mant} {d.scale}" | none => "none")
    | _, _ => "bad-op"
  | ["amtccy", i, c] => match unhex i, unhex c with
    | some t, some ccy => (match roundTripAmount t ccy with | some o => s!"some {hex o}" | none => "none")
    | _, _ => "bad-op"
  | ["hdr", "basic", i] => match unhex i with
    | some t => (match BasicHeader.parse t with | some h => s!"ok {hex h.display}" | none => "err")
    | none => "bad-op"
  | ["hdr", "application", i] => match unhex i with
    | some t => (match AppHeader.parse t with | some h => s!"ok {hex h.display}" | none => "err")
    | none => "bad-op"
  | ["blk", n, i] => match n.toNat?, unhex i with
    | some n, some t => (match extractBlock t n with | some b => s!"some {hex b}" | none => "none")
    | _, _ => "bad-op"
  | "cls" :: ty :: mur :: flag :: sb :: stp :: lines =>
    let opt (s : String) : Option (Option (List Char)) := if s == "~" then some none else (unhex s).map some
    match ty.toNat?, opt mur, opt flag, lines.mapM unhex with
    | some ty, some mur, some flag, some ls =>
      let x : ClsInput := ⟨ty, ls, mur, flag, sb == "1", stp == "1"⟩
      s!"{msgReject x} {msgReturn x} {msgCover x} {msgStp x} {pluginMethod x}"
    | _, _, _, _ => "bad-op"
  | ["tok", i] => match unhex i with
    | some t => (match tokenise t with | some toks => s!"ok {canonToks toks}" | none => "err")
    | none => "bad-op"
  | "trk" :: vals :: reqs => ";".intercalate (trkRun (parseVals vals) reqs [])
  | ["pvw", opt, i, b, side] => match unhex i, unhex b with
    -- parse_(optional_)variant_field::<E>(base) with E's verdict on the extracted content supplied as a sidecar:
    -- `~` = parse_with_variant fails, otherwise the hex of what the value serialises to
    | some input, some base =>
      let pwv : Text → Option Text → Option Text := fun _ _ => if side == "~" then none else unhex side
      if opt == "1" then
        (match parseOptionalVariantWith pwv id (PState.init input) base with
          | .ok (some _, s') => s!"ok {byteLen s'.rest}"
          | .ok (none, _) => "none"
          | .error (.invalid t _) => s!"invalid:{hex t}"
          | .error (.parser e) => s!"err:{perr e}")
      else
        (match parseVariantWith pwv id (PState.init input) base with
          | .ok (_, s') => s!"ok {byteLen s'.rest}"
          | .error (.invalid t _) => s!"invalid:{hex t}"
          | .error (.parser e) => s!"err:{perr e}")
    | _, _ => "bad-op"
  | ["val", ty, i] => match ty.toNat?, unhex i with
    | some ty, some txt => (match J.parse txt with
      | some m => (match Rules.validateJson ty m with
        | some codes => s!"codes {",".intercalate codes}"
        | none => "#skip")
      | none => "bad-json")
    | _, _ => "bad-op"
  | ["conf", ty, i] => match unhex i with
    | some txt => (match J.parse txt with
      | some m => if conforms ty m then "ok" else "nonconforming"
      | none => "bad-json")
    | none => "bad-op"
  | ["leaf", kind, args, i] => match unhex i with
    | some txt =>
      let a := if args == "-" then [] else args.splitOn ","
      (match (Generated.Scenarios.fakeLangs.find? (fun p => p.1 == kind && p.2.1 == a)).map (·.2.2) with
      | some L =>
        let bicOk := if kind == "bic8" || kind == "bic11" then Scenario.bicB txt else true
        if L.memB txt && bicOk then "in" else "out"
      | none => "nokind")
    | none => "bad-op"
  | "render" :: sep :: pairs =>
    -- render <lf|crlf> tag:hexcontent ...  →  hex(renderFrom) wf=<0|1> rb=<0|1>
    let toks := pairs.filterMap (fun p => match p.splitOn ":" with
      | [t, h] => (unhex h).map (fun c => (t.toList, c))
      | _ => none)
    if toks.length != pairs.length then "bad-op" else
    let sepT : Text := if sep == "crlf" then ['\r', '\n'] else ['\n']
    let text := renderFrom sepT [] toks
    let wf := toks.all (fun p => wfTag p.1 && wfc p.2)
    let st : PState := { rest := text, seen := [], allowDup := true }
    let rb : Bool := match readAll st (toks.map (·.1)) with
      | .ok (cs, s') => cs == toks.map (·.2) && isComplete s'
      | .error _ => false
    let wfS := cond wf "1" "0"
    let rbS := cond rb "1" "0"
    s!"{hex text} wf={wfS} rb={rbS}"
  | ["epw", ename, letter, i] => match unhex i with
    | some input =>
      let l : Text := if letter == "-" then [] else letter.toList
      (match Fields.enumPwv ename l input with
      | some (.ok (ser, _)) => s!"ok {hex ser}"
      | some .err => "err"
      | some .panic => "panic"
      | none => "#skip")
    | none => "bad-op"
  | ["vallist"] => ",".intercalate (Rules.modelled.map (fun p => toString p.1))
  | ["fldlist"] => ",".intercalate Fields.modelledNames
  | ["fld", name, i] => match unhex i with
    | some input => (match Fields.run name input with
      | some (.ok (ser, j)) => s!"ok {hex ser} {String.ofList j.render}"
      | some .err => "err"
      | some .panic => "panic"
      | none => "#skip")
    | none => "bad-op"
  | "mp" :: i :: ops => match unhex i with
    | some input => ";".intercalate (mpRun (PState.init input) ops)
    | none => "bad-op"
  | _ => "bad-op"

partial def loop (h : IO.FS.Stream) (out : IO.FS.Stream) : IO Unit := do
  let line ← h.getLine
  if line.isEmpty then return ()
  let args := (line.trimAscii.toString.splitOn " ").filter (· ≠ "")
  out.putStrLn (handle args)
  loop h out

def main : IO Unit := do
  let i ← IO.getStdin
  let o ← IO.getStdout
  loop i o
