import SwiftMT.Dispatch
/-
Line-protocol driver over the executable model: one request per line on stdin, one answer per line on
stdout.  Arguments are space separated; texts travel hex-encoded (UTF-8 bytes).
Imports only model files (no proofs, no Mathlib) so that it links as a `lean_exe`.
-/
open SwiftMT

def resStr : Dispatch.Res → String
  | .ok w b => s!"ok {w} {b}"
  | .mismatch => "mismatch"
  | .unsupported => "unsupported"

def handle (args : List String) : String :=
  match args with
  | ["c12", "auto", c] => match c.toNat? with
      | some c => resStr (Dispatch.autoParse c) | none => "bad-op"
  | ["c12", "typed", r, a] => match r.toNat?, a.toNat? with
      | some r, some a => resStr (Dispatch.typedParse r a) | _, _ => "bad-op"
  | ["c12", "wrapper", c] => match c.toNat? with
      | some c => (match Dispatch.wrapperType c with | some t => s!"some {t}" | none => "none") | none => "bad-op"
  | ["c12", "pparse", c] => match c.toNat? with
      | some c => resStr (Dispatch.pluginParseRes c) | none => "bad-op"
  | ["c12", "pvalidate", c] => match c.toNat? with
      | some c => resStr (Dispatch.pluginValidateRes c) | none => "bad-op"
  | ["c12", "wvalidate", c] => match c.toNat? with
      | some c => resStr (Dispatch.wrapperValidateRes c) | none => "bad-op"
  | ["c12", "publish", al, c] => match c.toNat? with
      | some c => resStr (Dispatch.publishRes (al == "1") c) | none => "bad-op"
  | _ => "bad-op"

partial def loop (h : IO.FS.Stream) (out : IO.FS.Stream) : IO Unit := do
  let line ← h.getLine
  if line.isEmpty then return ()
  let args := (line.trimAscii.toString.splitOn " ").filter (· ≠ "")
  out.putStrLn (handle args)
  loop h out

def main : IO Unit := do
  let i ← IO.getStdin
  let o ← IO.getStdout
  loop i o
