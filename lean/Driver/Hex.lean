/- Hex transport of texts (UTF-8 bytes), for the line protocol. -/
namespace Driver

def hexVal (c : Char) : Option Nat :=
  if '0' ≤ c && c ≤ '9' then some (c.toNat - 48)
  else if 'a' ≤ c && c ≤ 'f' then some (c.toNat - 87)
  else if 'A' ≤ c && c ≤ 'F' then some (c.toNat - 55)
  else none

partial def unhexBytes : List Char → ByteArray → Option ByteArray
  | [], acc => some acc
  | a :: b :: rest, acc =>
    match hexVal a, hexVal b with
    | some x, some y => unhexBytes rest (acc.push (UInt8.ofNat (x * 16 + y)))
    | _, _ => none
  | _, _ => none

/-- "-" encodes the empty text. -/
def unhex (s : String) : Option (List Char) :=
  if s == "-" then some [] else
  match unhexBytes s.toList ByteArray.empty with
  | some b => (String.fromUTF8? b).map (·.toList)
  | none => none

def hexNibble (n : Nat) : Char := if n < 10 then Char.ofNat (48 + n) else Char.ofNat (87 + n)

def hex (t : List Char) : String :=
  if t.isEmpty then "-" else
  let b := (String.ofList t).toUTF8
  String.ofList (b.toList.flatMap (fun x => [hexNibble (x.toNat / 16), hexNibble (x.toNat % 16)]))

def byteLen (t : List Char) : Nat := (String.ofList t).utf8ByteSize

end Driver
