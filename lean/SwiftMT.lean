import SwiftMT.Stage
import SwiftMT.Dispatch
import SwiftMT.MParser
import SwiftMT.Props.C01
import SwiftMT.Props.C09
import SwiftMT.Props.C12
import SwiftMT.Props.C13
