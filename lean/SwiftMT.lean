import SwiftMT.Stage
import SwiftMT.Dispatch
import SwiftMT.Props.C12
import SwiftMT.Props.C13
