"""Per-property configuration of check.py (streams, Lean targets, evidence texts)."""

KERNEL = "Lean 4.33 kernel (lake build; thorough tier re-checks the .olean with leanchecker)"
TRANSLATOR = "translator /verif/translator/rs2lean.py (closed shape sets, loud failure); its output is re-run against the real entry points by the harness"
HARNESS = "Rust harness /verif/harness (generators bound what a disagreement can show; canonical outcome enums)"


def n_dispatch(gen):
    d = gen.get("dispatch", {})
    n = 0
    for k in ("auto", "own", "plugin_validate"):
        n += len(d.get(k) or [])
    for k in ("plugin_parse", "publish", "wrapper"):
        v = d.get(k) or {}
        for kk in v:
            if isinstance(v[kk], list):
                n += len(v[kk])
    return n


def n_stages(gen):
    return sum(len(e.get("stages", [])) + 1 for e in gen.get("stages", []))


PROPS = {
    "C12": {
        "streams": ["c12"],
        "driver": True,
        "extractors": ["T4"],
        "instances": n_dispatch,
        "exhaustive": True,
        "rule": "exhaustive: 30x30 (requested, announced) typed parses; every announced code 000-999 through parse_auto, parse_mt, "
                "validate_mt; the 30 supported codes additionally through publish_mt (both key spellings), wrapper validate and a JSON/"
                "text comparison with the typed API; a case is one (entry point, code[, requested]) triple, all are distinct",
        "modelled": "all five dispatch tables + each type's message_type() are regenerated from source (T4); entry-point glue "
                    "(manual_unescape, clean_null_fields, serde of the wrapper) is exercised by the harness, not modelled",
        "trusted_base": [KERNEL, TRANSLATOR, HARNESS,
                         "hand model SwiftMT/Dispatch.lean of how each entry point consults its table (first matching arm wins)",
                         "Spec/Supported.lean: the documented list of 30 types"],
        "assumptions": ["type codes are three ASCII digits (the translator rejects any other match key)",
                        "a Rust `match` on string literals takes the first equal arm"],
    },
    "C13": {
        "streams": ["c13"],
        "driver": False,
        "extractors": ["T6"],
        "instances": n_stages,
        "rule": "every shipped scenario x draws x JSON mutants (field removal, value copy, code/currency substitution, repetition, "
                "amount change) deserialised into the typed message; non-trivial = the full error list is non-empty; distinct = "
                "distinct (type, error-code list)",
        "modelled": "the aggregation of all 30 validate_network_rules is regenerated as stage lists (T6) and proved for arbitrary "
                    "rule functions; rule bodies are not modelled here (C04); adapters are checked syntactically (T4/T6) and by the oracle",
        "trusted_base": [KERNEL, TRANSLATOR, HARNESS,
                         "SwiftMT/Stage.lean: semantics given to the three recognised stage shapes",
                         "MT941 C1 is read as a check sequence (translator shape check), its inner shape is covered by checkRule_wb"],
        "assumptions": ["rule functions are deterministic functions of &self (purity scan of the sources + repeat oracle)",
                        "Vec::push/extend append in order"],
    },
}
