"""Per-property configuration of check.py (streams, Lean targets, evidence texts)."""

KERNEL = "Lean 4.33 kernel (lake build; thorough tier re-checks the .olean with leanchecker)"
TRANSLATOR = "translator /verif/translator/rs2lean.py (closed shape sets, loud failure); its output is re-run against the real entry points by the harness"
HARNESS = "Rust harness /verif/harness (generators bound what a disagreement can show; canonical outcome enums)"


def n_dispatch(gen):
    d = gen.get("dispatch", {})
    n = 0
    for k in ("auto", "own", "plugin_validate"):
        n += len(d.get(k) or [])
    for k in ("plugin_parse", "publish", "wrapper"):
        v = d.get(k) or {}
        for kk in v:
            if isinstance(v[kk], list):
                n += len(v[kk])
    return n


def n_stages(gen):
    return sum(len(e.get("stages", [])) + 1 for e in gen.get("stages", []))


def n_layout_calls(gen):
    return sum(len(l.get("calls", [])) + 1 for l in gen.get("layouts", []))


MODEL_KERNEL = "hand models SwiftMT/Text.lean, Extract.lean, MParser.lean of field_extractor.rs and message_parser.rs: modelled, not verified; tied by the `extract` correspondence stream (adversarial texts x tags through extract_field_content; random operation histories through the public MessageParser API)"

PROPS = {
    "C01": {
        "streams": ["c01", "extract"],
        "driver": True,
        "extractors": ["T1"],
        "instances": n_layout_calls,
        "rule": "c01: for each of the 30 types, messages generated from the independent layout spec (spec/layouts.txt) with contents from "
                "the library's own canonical spellings, rendered with LF/CRLF, with/without terminator, plus the library's serialisations of "
                "scenario draws; each valid text also under the mutators insert-unknown-tag, insert-known-tag, duplicate, swap, append, "
                "corrupt-content, foreign-option-letter, blank-line, over-cap; the oracle tokenises input and output independently of the "
                "library.  Non-trivial = accepted valid text or a mutant outside the layout; distinct = distinct (type, class, tag sequence). "
                "extract: adversarial strings (markers, end markers, CR/LF, Unicode white space and letters) x tags, and random "
                "MessageParser operation histories, implementation vs compiled Lean model Round-4 addition: every field in turn with an empty content.",
        "modelled": "extraction kernel + MessageParser (all public operations) modelled by hand; 30 parse_from_block4 bodies regenerated as call "
                    "lists with propagation/completeness facts (T1); field parsers abstract (any acceptance predicate); field content "
                    "round trips are C02",
        "trusted_base": [KERNEL, TRANSLATOR, HARNESS, MODEL_KERNEL,
                         "spec/layouts.txt: independent layout specification used by the generator and the oracle's membership test"],
        "assumptions": ["every pattern searched for is valid UTF-8, so byte offsets of matches are character boundaries",
                        "char::is_alphanumeric / is_whitespace as tabulated in Text.lean (exact on ASCII and on the non-ASCII ranges the generators use)",
                        "the result of each propagated parse call reaches the constructed message (translator checks `?` and absence of `let _`; the oracle checks the rest)"],
    },
    "C10": {
        "streams": ["c10"],
        "driver": True,
        "extractors": ["T5"],
        "instances": lambda gen: sum(len(v) for v in gen.get("tables", {}).get("header_tags", {}).values()),
        "rule": "envelopes assembled from documented components: block 1 (25 chars), block 2 input (17/18/21) and output (46/47), any subset / "
                "order of the 13 block-3 tags and the 8 block-5 tags with values in their documented formats, around an MT199 body; each "
                "parsed with SwiftParser::parse and re-serialised, blocks compared with an independent brace-matching reader; near-miss "
                "headers (length +-1, wrong / lower-case direction, non-code monitoring character, partly readable lengths, non-ASCII) must "
                "be rejected; bodies containing '-}', '{5:' or '{1:' probe structure independence; BasicHeader/ApplicationHeader parse+Display "
                "and extract_block(1..5) are compared with the compiled Lean model on every ASCII case. distinct = (direction, tag subsets) Also: output / input headers with an odd priority character (rejected or kept verbatim), upper- and mixed-case UETRs.",
        "modelled": "BasicHeader / ApplicationHeader parse + Display, extract_block + find_matching_brace by hand; block-3/5 tag lists of parse "
                    "and Display regenerated (T5); UserHeader/Trailer value handling is exercised by the oracle, not modelled",
        "trusted_base": [KERNEL, TRANSLATOR, HARNESS, "hand model SwiftMT/Headers.lean (ASCII texts; compared on every generated case)"],
        "assumptions": ["header texts are ASCII (byte offsets = character offsets); non-ASCII is covered by C07"],
    },
    "C11": {
        "streams": ["c11"],
        "driver": True,
        "extractors": ["T5"],
        "instances": lambda gen: len(gen.get("tables", {}).get("date_sites", [])),
        "exhaustive": False,
        "rule": "quick: every yy x {month 00,01,02,03,04,06,09,11,12,13,99} x {day 00,01,28..32,99} plus 3000 random six-digit strings, "
                "every 7th HHMM string (MT side and the JSON time codec, which must accept the same strings), every HH x {MM 00,01,30,59,60,99} as time and as +/- offset, eight-digit date strings, plus signed / spaced / lettered / "
                "non-ASCII spellings; thorough: exhaustive 10^6 six-digit strings through 15 date-bearing fields, 10^4 HHMM, 2x10^4 "
                "offsets. Each case compares acceptance, meaning (date in the parsed value), MT serialisation and JSON round trip with an "
                "independent days-in-month oracle, and the date/time primitives with the compiled Lean model. Non-trivial = a valid "
                "calendar date or a non-digit spelling; distinct = (field, string)",
        "modelled": "parse_date_yymmdd, parse_time_hhmm, the 13C/13D offset check, both date printers and the 13D JSON date codec; "
                    "date construction sites regenerated (T5)",
        "trusted_base": [KERNEL, TRANSLATOR, HARNESS, "hand model SwiftMT/Calendar.lean (validated exhaustively in the thorough tier)"],
        "assumptions": ["NaiveDate::from_ymd_opt / NaiveTime::from_hms_opt accept exactly Gregorian dates / 24h clock times (validated exhaustively for 1950-2049)",
                        "chrono's %y%m%d and %H%M print two zero-padded digits per component"],
    },
    "C06": {
        "streams": ["c06"],
        "driver": True,
        "extractors": ["T5"],
        "instances": lambda gen: len(gen.get("tables", {}).get("currency", {}).get("rows", [])) + 1,
        "rule": "22 amount/rate field shapes (19, 32A/B/C/D, 33B, 34F with and without D/C mark, 36, 37H with and without N, 60F/M, 61, 62F/M, 64, "
                "65, 71F/G, 90C/D) x currencies (quick: a fixed set covering every precision 0/2/3/4, commodity and unknown codes, plus random "
                "ISO codes; thorough: all ISO-4217 codes) x decimals 0..5 x magnitudes 0..17 digits, plus 39 non-decimal spellings (NaN, inf, "
                "exponents, signs, separators, blanks, non-ASCII). Checks: accepted => plain decimal within length limit and currency precision; "
                "permitted decimal => accepted; MT serialisation and JSON number denote the same decimal; re-parse stable. The currency-aware "
                "and the plain amount primitives are compared with the compiled Lean model in the exact-decimal region. Non-trivial = plain "
                "decimal or accepted; distinct = (field shape, currency, amount text)",
        "modelled": "parse_amount, parse_amount_max_len, parse_amount_with_currency, get_currency_decimals (table regenerated, T5), "
                    "format_swift_amount(_for_currency) on exact decimals; the f64 in between is NOT modelled",
        "trusted_base": [KERNEL, TRANSLATOR, HARNESS, "hand model SwiftMT/Amount.lean (differentially compared through fields 32B and 19)",
                         "Spec/Iso4217.lean: ISO 4217 minor units written by hand"],
        "assumptions": ["decimal -> f64 -> decimal ({:.N} printing) is the identity when integer digits + printed decimals <= 15; outside that region only the oracle speaks (finding class f64-precision)",
                        "str::parse::<f64> on a plain decimal returns the correctly rounded value"],
    },
    "C14": {
        "streams": ["c14"],
        "driver": True,
        "extractors": ["T3"],
        "instances": lambda gen: sum(len(e.get("variants", [])) + 1 for e in gen.get("enums", [])),
        "rule": "all 25 option enums (29 family names through 8 aliases) x contents drawn from the library's own spellings of every option of "
                "that field number plus 20 hand-written ambiguous contents (a name shaped like a BIC, an account shaped like a numbered line, "
                "content valid for several options, empty) x 13 letters (family and foreign, and none): parse_with_variant must return the "
                "variant named by the letter or fail; parse without letter must return a variant whose own parser gives the same value and "
                "that re-parses from its serialisation; each (content, letter) also inside a message position through "
                "MessageParser::parse_variant_field / parse_optional_variant_field, compared with the compiled Lean model (the enum's verdict as "
                "sidecar). distinct = (enum, letter, content) Also: look-alike and spliced contents (first line of one option + remaining lines of another), invalid slash-led one-liners, every family letter in a message position (letter_not_read oracle).",
        "modelled": "MessageParser::parse_variant_field / parse_optional_variant_field including the written-back-tag check, for an arbitrary "
                    "enum; the 25 enum declarations and their parse_with_variant arms are regenerated (T3); the content heuristics of the "
                    "enums' parse() are exercised by the oracle, not modelled",
        "trusted_base": [KERNEL, TRANSLATOR, HARNESS, MODEL_KERNEL],
        "assumptions": ["to_swift_string of an enum delegates to the wrapped struct, whose tag is the struct's letter (translator compares variant letter and struct letter)"],
    },
    "C16": {
        "streams": ["c16"],
        "driver": True,
        "extractors": [],
        "instances": 0,
        "rule": "block-4 texts of all 30 types from the grammar generator (LF/CRLF, with/without terminator) and mutants (text before the first "
                "field, a content line starting with ':', an empty value, a numbered tag `NN#k` at a non-first position, a last content ending in "
                "dashes / braces; thorough: 66000 fields) through parse_block4_fields, judged by the "
                "independent tokeniser (every field once under its documented normalised tag, trimmed content, input order, stamps strictly "
                "increasing); each resulting map through find_field_with_variant_sequential_constrained for six base tags (every occurrence "
                "exactly once, in order) and through split_into_sequences under 8 configurations (partition); random request histories "
                "(next+mark, raw mark) through FieldConsumptionTracker; tokeniser and tracker compared with the compiled Lean model. "
                "distinct = (stream, text / history) Also: mixed line ends within one text.",
        "modelled": "parse_block4_fields (loop, stamps, normalize_field_tag, extract_base_tag), FieldConsumptionTracker, the final distribution "
                    "step of split_into_sequences; the boundary search of split_into_sequences and the constrained finder are covered by the "
                    "oracle only",
        "trusted_base": [KERNEL, HARNESS, "hand model SwiftMT/Tokeniser.lean (ASCII texts; compared on every generated case)"],
        "assumptions": ["block-4 texts are ASCII (the implementation indexes chars().nth with a byte offset when counting lines; only the line-number half of the stamp depends on it)",
                        "HashMap<String, Vec<..>> keeps insertion order within each Vec"],
    },
    "C17": {
        "streams": ["c17"],
        "driver": True,
        "extractors": ["T5"],
        "instances": lambda gen: sum(len(c) for c in gen.get("tables", {}).get("classify", {}).get("chains", {}).values()) + 6,
        "rule": "MT103, MT202, MT205 and MT199 (as a type without classification) x 22 field-72 lines (code words, look-alikes /RJT/ /RET/ "
                "/RETURN/, lower case, words without slashes, words inside other lines) x 10 user references (tag 108) x 7 validation flags "
                "(tag 119), plus random multi-line combinations with sequence-B / 23B / 56a variants; the four SwiftMessage predicates and the "
                "plugin's `method` compared with an independent statement of the rules and with the compiled Lean model; distinct = all "
                "parameters; non-trivial = a code word or look-alike present Also: MT199 body predicates against the first-line rule; a second parse_mt on the same dataflow message (no stale method).",
        "modelled": "SwiftMessage::has_reject_codes/has_return_codes/is_cover_message, the MT103/202/205 body predicates over regenerated "
                    "word tables, and the plugin's method chains (regenerated, T5); is_stp_compliant is an input (C04)",
        "trusted_base": [KERNEL, TRANSLATOR, HARNESS, "hand model SwiftMT/Classify.lean of how the predicates combine the tables"],
        "assumptions": ["user references are ASCII (to_uppercase modelled on ASCII)"],
    },
    "C09": {
        "streams": ["c09"],
        "driver": False,
        "extractors": ["T1"],
        "instances": n_layout_calls,
        "rule": "for each of the 30 types and each accepted generated message: every mandatory occurrence deleted (one at a time, skipped when "
                "the text stays inside the layout) and every occurrence's content replaced by a content no field accepts; expected error: "
                "MissingRequiredField{tag or base tag, type} resp. InvalidFieldFormat{tag, value = the content}; distinct = (type, tag, position)",
        "modelled": "MessageParser error behaviour (missing / invalid) by hand; mandatory reads per type regenerated (T1)",
        "trusted_base": [KERNEL, TRANSLATOR, HARNESS, MODEL_KERNEL],
        "assumptions": ["the message type reported is the constant passed to MessageParser::new (checked by the oracle on every case)"],
    },
    "C12": {
        "streams": ["c12"],
        "driver": True,
        "extractors": ["T4"],
        "instances": n_dispatch,
        "exhaustive": True,
        "rule": "exhaustive: 30x30 (requested, announced) typed parses; every announced code 000-999 through parse_auto, parse_mt, "
                "validate_mt; the 30 supported codes additionally through publish_mt (both key spellings), wrapper validate and a JSON/"
                "text comparison with the typed API; a case is one (entry point, code[, requested]) triple, all are distinct Also: rule-violating messages of every type through wrapper and plugin validate; type strings that merely start with a supported code through publish.",
        "modelled": "all five dispatch tables + each type's message_type() are regenerated from source (T4); entry-point glue "
                    "(manual_unescape, clean_null_fields, serde of the wrapper) is exercised by the harness, not modelled",
        "trusted_base": [KERNEL, TRANSLATOR, HARNESS,
                         "hand model SwiftMT/Dispatch.lean of how each entry point consults its table (first matching arm wins)",
                         "Spec/Supported.lean: the documented list of 30 types"],
        "assumptions": ["type codes are three ASCII digits (the translator rejects any other match key)",
                        "a Rust `match` on string literals takes the first equal arm"],
    },
    "C13": {
        "streams": ["c13"],
        "driver": False,
        "extractors": ["T6"],
        "instances": n_stages,
        "rule": "every shipped scenario x draws x JSON mutants (field removal, value copy, code/currency substitution, repetition, "
                "amount change; every optional / repeatable member the draw lacks added from the regenerated struct declarations, repeatable "
                "ones 1x and 3x with a later occurrence in another currency; optional components of present fields; every pair of "
                "differently-violating single mutants composed on a message with two sequence elements, violations in the same and in "
                "different elements) deserialised into the typed message; non-trivial = the full error list is non-empty; distinct = "
                "distinct (type, error-code list)",
        "modelled": "the aggregation of all 30 validate_network_rules is regenerated as stage lists (T6) and proved for arbitrary "
                    "rule functions; rule bodies are not modelled here (C04); adapters are checked syntactically (T4/T6) and by the oracle",
        "trusted_base": [KERNEL, TRANSLATOR, HARNESS,
                         "SwiftMT/Stage.lean: semantics given to the three recognised stage shapes",
                         "MT941 C1 is read as a check sequence (translator shape check), its inner shape is covered by checkRule_wb"],
        "assumptions": ["rule functions are deterministic functions of &self (purity scan of the sources + repeat oracle)",
                        "Vec::push/extend append in order"],
    },
}

FIELD_MODEL = "hand models SwiftMT/Prim.lean + SwiftMT/Fields/*.lean of src/fields/swift_utils.rs, field_utils.rs and the modelled field*.rs parse / to_swift_string / serde shapes: modelled, not verified; tied by the `fields` correspondence stream (acceptance, serialisation and JSON component values on every generated content)"
FIELD_SPEC = "harness/src/fieldspec.rs + fmt.rs: my reading of the documented format of all 114 field types (from the doc comments), used by the oracle; SwiftMT/Spec/FieldDocs.lean: the same documented formats as Lean predicates for the modelled types"
FIELD_RULE = ("all 114 field types (89 structs, 25 option enums) x contents generated from the documented format: conforming contents at minimum / "
              "maximum / random component lengths with every optional part present, absent and random; one-node violations (max+1, exact+-1, one "
              "line too many, invalid date / time / offset / BIC / currency / amount); 32 string mutants per base content (appended, deleted, "
              "replaced characters; every prefix of valid contents; extra, blank and CRLF lines; leading / trailing line breaks; lower case; tab; non-ASCII of 2, 3 and 4 "
              "bytes; Arabic-Indic digit; slashes; duplication; empty) and random strings over a SWIFT and a non-SWIFT alphabet. "
              "Non-trivial = documented or accepted; distinct = (field type, content). ")

def n_field_models(gen):
    return 0

PROPS.update({
    "C05": {
        "disagreement_is_failing_input": True,
        "streams": ["fields"],
        "stream_args": {"fields": ["--prop", "C05", "--modelled", "@modelled"]},
        "driver": True,
        "extractors": [],
        "instances": 0,
        "rule": FIELD_RULE + "Oracle: the implementation accepts a content iff the independent matcher of the documented format does (for an option "
                "enum's letter-less heuristic parse only over-acceptance is judged; C14 decides the letters). Modelled types are compared with the Lean model.",
        "modelled": "field types with a Lean model: the registry of lean/SwiftMT/Fields/Registry.lean (asked from the compiled driver on every run; "
                    "listed in the evidence); the remaining types are covered by the oracle only",
        "trusted_base": [KERNEL, HARNESS, FIELD_MODEL, FIELD_SPEC],
        "assumptions": ["field contents reach the parsers with LF as the only line separator (C01: the extraction kernel normalises CRLF)",
                        "Char.isDigit / isUpper / isAlpha / isAlphanum of Lean core are the ASCII classes the Rust is_ascii_* predicates test"],
    },
    "C02": {
        "streams": ["fields", "c02msg"],
        "stream_args": {"fields": ["--prop", "C02", "--modelled", "@modelled"]},
        "driver": True,
        "extractors": [],
        "instances": 0,
        "rule": FIELD_RULE + "Oracle: every accepted content is serialised, re-parsed (an enum through the option letter it wrote) and must give an "
                "equal value (JSON) and the same text again. c02msg: messages of all 30 types from the layout grammar with contents from the "
                "library's spellings and from the documented formats at boundary lengths, LF / CRLF, input and output application headers, "
                "no / empty / populated blocks 3 and 5 (half from a fixed list, half generated: every block-3 / block-5 tag subset in any order, "
                "headers of every documented shape); every other message from the layout with the generator-only conventions read as plain "
                "optional, plus remove / copy / swap / move mutants of every generated message (whatever is still accepted): parse, serialise, "
                "re-parse, compare every header, trailer and field value, serialise again and compare byte for byte. The recorded f64 finding "
                "excuses a difference only when the site is an amount-bearing field and nothing but JSON numbers differs.",
        "modelled": "as C05; the message-level statement (re-tokenising a serialised message gives the same fields) is proved over the C01 extraction model",
        "trusted_base": [KERNEL, HARNESS, FIELD_MODEL, MODEL_KERNEL],
        "assumptions": ["values are compared through serde_json::to_value (every component is serialised: no #[serde(skip)] in src/fields)"],
    },
    "C07": {
        "streams": ["fields", "total"],
        "stream_args": {"fields": ["--prop", "C07", "--modelled", "@modelled"]},
        "driver": True,
        "extractors": [],
        "instances": 0,
        "rule": FIELD_RULE + "Oracle: no content makes any of the 114 parsers (or the serialiser / serde codecs of the value it returns) panic "
                "(catch_unwind per case). total: valid messages of all 30 types truncated at many offsets, with 2/3/4-byte characters replaced / "
                "inserted at many positions, with shuffled block markers, tiny inputs (thorough: 1 MB line, 70 000 fields) through parse_auto, "
                "parse::<T>, parse_with_errors, extract_block(1..5), parse_from_block4, the four header parsers and the parse / validate plugins; "
                "every error rendered with Display, debug_report, brief_message, format_with_context; every systematic JSON mutant of the "
                "scenarios (incl. short / non-ASCII currencies) through from_value, validate, to_mt_message, to_value; each under catch_unwind "
                "and a quadratic wall-clock budget.",
        "modelled": "panic-aware models (explicit `panic` outcome for byte slicing off a character boundary / unwrap on None) of the modelled field types",
        "trusted_base": [KERNEL, HARNESS, FIELD_MODEL],
        "assumptions": ["time and memory bounds, allocator aborts and stack depth are outside the model (labelled partial)"],
    },
    "C04": {
        "disagreement_is_failing_input": True,
        "streams": ["c04"],
        "driver": True,
        "extractors": ["T6", "T3s"],
        "instances": n_stages,
        "rule": "every shipped scenario of all 30 types, drawn and mutated systematically at the JSON level: every member removed (one at a "
                "time); party / floor-limit / field-72 members added to the body and to every sequence element; every currency, indicator, "
                "type_code, instruction code, D/C mark and BIC leaf replaced by alternatives; every sequence array repeated to 2, 10 and 11 "
                "elements; reject/return lines pushed into every text array; every amount shifted by 1, 0.5 and set to 0; plus random pairs "
                "of those and random structural mutations. Each mutant that still deserialises is validated by the real "
                "validate_network_rules(false); the error-code list is compared with the Lean rule model evaluated on the same JSON "
                "(all 30 types modelled: 21 with rules, 9 without any rule); multi-site charge assignments (71F / 71G in every sequence-B occurrence and at settlement level, each absent / USD / EUR) for MT103/104/107; sum mutants for MT104/107/204 (2-10 transactions with amounts that are inexact in binary, the total set to the exact sum, +-0,02, +0,05, +1); field-23 mutants of MT935 (every function word x days none/1/7/9/10/31/99); every optional / repeatable member the draw lacks added from the regenerated struct declarations (repeatable ones 1x, 3x and 3x with a later occurrence in another currency) and optional components of present fields. Non-trivial = non-empty error list; distinct = (type, code list). "
                "The evidence tallies every (type, code) pair that was triggered.",
        "modelled": "rule functions of all 21 types that have rules (MT101, 103, 104, 107, 110, 192, 196, 200, 202, 204, 205, 210, 292, 296, 910, 920, 935, "
                    "940, 941, 942, 950: 95 rules) over views read through the regenerated struct declarations (T3s), constant tables (T5r) and "
                    "aggregated by the regenerated stage lists (T6); the 9 types without rules",
        "trusted_base": [KERNEL, TRANSLATOR, HARNESS,
                         "hand models SwiftMT/Rules.lean of the rule functions (modelled, not verified; every generated mutant is compared)",
                         "the documented side of each rule is stated in the theorem statements of Props/C04.lean (my reading of the rule's doc comment / SR2025)"],
        "assumptions": ["a message is what serde_json::to_value shows of it (rules read public fields only)",
                        "sums of amounts are compared exactly in the model; the implementation's f64 comparison agrees away from the 0.01 boundary (boundary mutants are not generated)"],
    },
    "C03": {
        "streams": ["c03"],
        "driver": True,
        "extractors": ["T1", "T3", "T3s", "T9"],
        "instances": n_layout_calls,
        "rule": "for each of the 30 types, messages assembled from the independent layout specification (spec/layouts.txt) under structural plans: "
                "minimal (mandatory items only), full (every optional item) once per option letter position, every optional item alone, every "
                "repeating field / sequence at 1, 2 and the documented maximum (100 / 500 for the hard caps), plus random subsets from the shared "
                "generator; contents are the library's canonical spellings (each pool content replaced by what the field's serialiser writes and kept "
                "only if that is a field-level fixed point) of scenario draws and of contents generated from the documented field formats at "
                "minimum / maximum / random component lengths. Oracle: accepted; to_mt_string() equal to the text byte for byte; the JSON model holds, "
                "per sequence occurrence and tag (incl. option letter), exactly the component values the field's own parser gives for the written content, "
                "in input order. Non-trivial = every case (all are valid messages); distinct = (type, plan, tag sequence)",
        "modelled": "documented layout (T9) vs the parser call lists of parse_from_block4 (T1) and the option letters of the enum declarations (T3) with "
                    "type aliases (T3s): reachability walk in Lean; acceptance, reproduction and component exposure are observed on the implementation",
        "trusted_base": [KERNEL, TRANSLATOR, HARNESS,
                         "spec/layouts.txt: independent layout specification (my reading of the SR2025 layouts as documented in each mt*.rs doc comment)",
                         "the component expectation uses the library's own field parser on the single content (field-level correctness is C05/C02)"],
        "assumptions": ["a call `covers` a letter iff the enum it parses has a variant with that letter (parse_with_variant dispatch is C14)"],
    },
    "C15": {
        "streams": ["c15"],
        "driver": True,
        "extractors": ["T8"],
        "instances": lambda gen: gen.get("scenarios", {}).get("leaves", 0),
        "rule": "for every shipped scenario file (195, all 30 types): random draws through the library's own four plugin functions generate_mt -> "
                "publish_mt -> validate_mt -> parse_mt with an EXACT comparison of parsed and generated JSON (nulls dropped, numbers by value, no "
                "rounding); plus directed draws in which every text generator (company_name, street_address, city_name, name, bs, sentence) is "
                "replaced by an extreme value found among 40 000 (quick) / 400 000 (thorough) real draws of that generator: longest, shortest, "
                "exactly 35 / 36 characters, a blank at the 33rd..36th position (the substr cut), an apostrophe in a long name. Every generator kind "
                "used by a scenario is drawn 300 / 3000 times and each draw is sent to the Lean model (`leaf kind args text`), which must answer "
                "that it lies in the language assumed for that kind. Non-trivial = every pipeline case; distinct = (type, scenario, class)",
        "modelled": "the scenario files as expression trees (T8: literals, var, fake, cat, substr); the languages of the external generators (assumed; "
                    "computed by the translator from datafake-rs' operator source and the `fake` crate's word lists, validated against real draws on "
                    "every run); the documented component formats (nx text, slash-free reference, BIC, currency) and, through C05, the field models. "
                    "NOT modelled: amounts, dates, code words, structured lines (50F, 59F, 61, 77T), the network rules of a whole generated message, "
                    "datafake's engine itself",
        "trusted_base": [KERNEL, TRANSLATOR, HARNESS,
                         "ASSUMPTION GenOK: every draw of a generator kind lies in the language listed in Generated/FakeLangs.lean and the bic8 / bic11 kinds draw texts parse_bic accepts (external crates datafake-rs 0.2, fake 4.4; sampled on every run, not proved)",
                         "JSONLogic `cat` / `substr` semantics of datalogic-rs as modelled by `Draws` (concatenation; characters start..start+len)"],
        "assumptions": ["a scenario's value is what the expression tree denotes under `Draws` (var = the variable's expression; one draw per variable is a special case)",
                        "`date` kinds return today's date (datafake: Utc::now()), so date components do not vary between draws"],
    },
    "C08": {
        "streams": ["c08", "fields"],
        "stream_args": {"fields": ["--prop", "C08", "--modelled", "@modelled"]},
        "driver": True,
        "extractors": ["T3s"],
        "instances": lambda gen: len(gen.get("shapes", {}).get("structs", [])) + len(gen.get("shapes", {}).get("enums", [])),
        "rule": "c08: for each of the 30 types, messages generated from the independent layout grammar (all option letters, 0..max repetitions; "
                "contents from the library's own spellings plus dates at both ends of the century window and currencies of precision 0, 2, 3, 4), "
                "with and without user header / trailer, parsed with the typed API; then from_value(to_value(m)) must give the same JSON and the "
                "same MT text, publish_mt(to_value(m)) must equal to_mt_message(), the JSON must contain no empty placeholder and only finite "
                "numbers, and the body / header JSON must conform to the regenerated struct and enum declarations (decided by the Lean driver). "
                "fields: every accepted content of all 114 field types through to_value / from_value (value equality). Non-trivial = accepted; "
                "distinct = (type, text).",
        "modelled": "serde shapes of all 143 structs and 27 enums regenerated from the source (T3s: rename, flatten, skip_serializing_if, default, "
                    "with, untagged, tag, type aliases); clean_null_fields, the 12-character address normalisation and the 13C/13D string codecs "
                    "by hand; serde's derive semantics themselves are assumed (attribute subset listed in DESIGN.md)",
        "trusted_base": [KERNEL, TRANSLATOR, HARNESS,
                         "SwiftMT/JsonShape.lean: what the recognised serde attributes mean for the JSON form (conformance is checked against every real to_value output)",
                         "serde / serde_json derive semantics for the attribute subset in use"],
        "assumptions": ["chrono's default serde for NaiveDate is the ISO date string (checked by conformance on every generated message)"],
    },
})
