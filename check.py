#!/usr/bin/env python3
"""Orchestrator: python3 check.py <ID> --tier quick|thorough [--replay FILE]   |   python3 check.py --setup

One run = regenerate (translator) → re-prove (lake build of the property's theorems against the regenerated
data) → audit (forbidden constructs, #print axioms) → correspond (Rust harness on the real library vs the
compiled Lean model, same inputs) → search (property oracles on the implementation) → classify against
known_findings.json → evidence/<ID>.json.  See DESIGN.md §1.1.  Standard library only.
"""
import argparse
import fcntl
import fnmatch
import json
import os
import re
import shutil
import subprocess
import sys
import time

ROOT = os.path.dirname(os.path.abspath(__file__))
LEAN = os.path.join(ROOT, "lean")
HARNESS = os.path.join(ROOT, "harness")
GEN = os.path.join(ROOT, ".gen")
REPO = os.environ.get("VERIF_REPO", "/repo")
ALLOWED_AXIOMS = {"propext", "Classical.choice", "Quot.sound"}
FORBIDDEN = re.compile(r"\b(sorry|admit|native_decide|bv_decide|implemented_by|unsafe |maxHeartbeats 0)\b|^axiom ")

sys.path.insert(0, ROOT)
from props import PROPS  # noqa: E402  (per-property configuration)

ENV = dict(os.environ, CARGO_NET_OFFLINE="true", VERIF_REPO=REPO)


def sh(cmd, cwd=None, timeout=None, input=None):
    p = subprocess.run(cmd, cwd=cwd, env=ENV, stdout=subprocess.PIPE, stderr=subprocess.STDOUT, text=True,
                       timeout=timeout, input=input)
    return p.returncode, p.stdout


class Lock:
    def __enter__(self):
        os.makedirs(GEN, exist_ok=True)
        self.f = open(os.path.join(ROOT, ".build.lock"), "w")
        fcntl.flock(self.f, fcntl.LOCK_EX)
        return self

    def __exit__(self, *a):
        fcntl.flock(self.f, fcntl.LOCK_UN)
        self.f.close()


# ------------------------------------------------------------------------------------------------

def regenerate():
    rc, out = sh([sys.executable, os.path.join(ROOT, "translator", "rs2lean.py"), "--repo", REPO,
                  "--out", os.path.join(LEAN, "SwiftMT", "Generated"), "--json", os.path.join(GEN, "generated.json")])
    info = {"rc": rc, "raw": out[-2000:]}
    try:
        info.update(json.loads(out.strip().splitlines()[-1]))
    except Exception:
        info["untranslated"] = [{"item": "translator", "why": "crashed: " + out[-400:], "extractor": "*"}]
    return info


def lake_build(targets):
    rc, out = sh(["lake", "build"] + targets, cwd=LEAN, timeout=3600)
    errors = []
    for m in re.finditer(r"error: (SwiftMT/[^:]+):(\d+):(\d+): (.*?)(?=\n(?:error|warning|trace|info|✖|✔|⚠|Some required|$))", out, re.S):
        errors.append({"file": m.group(1), "line": int(m.group(2)), "msg": m.group(4).strip()[:600]})
    return rc, out, errors


def theorem_at(path, line):
    """Name of the theorem/def enclosing `line` of a Lean file."""
    try:
        src = open(os.path.join(LEAN, path), encoding="utf-8").read().splitlines()
    except OSError:
        return None
    for i in range(min(line, len(src)) - 1, -1, -1):
        m = re.match(r"\s*(?:private |protected )?(?:theorem|lemma|def|example|instance)\s+([\w\.']+)?", src[i])
        if m:
            return m.group(1) or f"example@{i + 1}"
    return None


def prop_theorems(pid):
    """(namespace, [theorem names]) declared in Props/<pid>.lean."""
    path = os.path.join(LEAN, "SwiftMT", "Props", f"{pid}.lean")
    src = open(path, encoding="utf-8").read()
    names = re.findall(r"^theorem\s+([\w\.']+)", src, re.M)
    examples = len(re.findall(r"^example\b", src, re.M))
    return f"SwiftMT.Props.{pid}", names, examples


def audit(pid, extra_files=()):
    """Forbidden-construct scan over the Lean sources + #print axioms of every property theorem."""
    problems = []
    for dirpath, _, files in os.walk(LEAN):
        if ".lake" in dirpath:
            continue
        for fn in files:
            if not fn.endswith(".lean"):
                continue
            p = os.path.join(dirpath, fn)
            in_block = False
            for ln, line in enumerate(open(p, encoding="utf-8"), 1):
                code = line
                if in_block:
                    if "-/" in code:
                        in_block = False
                        code = code.split("-/", 1)[1]
                    else:
                        continue
                if "/-" in code:
                    pre, rest = code.split("/-", 1)
                    if "-/" in rest:
                        code = pre + rest.split("-/", 1)[1]
                    else:
                        in_block = True
                        code = pre
                code = code.split("--")[0]
                if FORBIDDEN.search(code):
                    problems.append(f"{os.path.relpath(p, LEAN)}:{ln}: {line.strip()[:100]}")
    ns, names, _ = prop_theorems(pid)
    os.makedirs(GEN, exist_ok=True)
    af = os.path.join(GEN, f"Audit_{pid}.lean")
    with open(af, "w") as f:
        f.write(f"import SwiftMT.Props.{pid}\n")
        for n in names:
            f.write(f"#print axioms {ns}.{n}\n")
    rc, out = sh(["lake", "env", "lean", af], cwd=LEAN, timeout=1800)
    axioms = {}
    for m in re.finditer(r"'([^']+)' (?:depends on axioms: \[([^\]]*)\]|does not depend on any axioms)", out):
        axioms[m.group(1)] = [a.strip() for a in (m.group(2) or "").replace("\n", " ").split(",") if a.strip()]
    bad = {k: [a for a in v if a not in ALLOWED_AXIOMS] for k, v in axioms.items()}
    bad = {k: v for k, v in bad.items() if v}
    missing = [n for n in names if f"{ns}.{n}" not in axioms]
    if rc != 0 or missing:
        problems.append(f"#print axioms failed for {missing[:5]} rc={rc}: {out[-300:]}")
    for k, v in bad.items():
        problems.append(f"{k} depends on non-standard axioms {v}")
    used = sorted({a for v in axioms.values() for a in v})
    return problems, axioms, used


def cargo_build():
    lock_src = os.path.join(REPO, "Cargo.lock")
    lock_dst = os.path.join(HARNESS, "Cargo.lock")
    try:
        if open(lock_src).read() != (open(lock_dst).read() if os.path.exists(lock_dst) else ""):
            pass  # harness keeps its own superset lock file (it adds tokio rt features already present in the repo's lock)
    except OSError:
        pass
    flags = "--cfg swiftmt_verif"
    env = dict(ENV, RUSTFLAGS=flags)
    p = subprocess.run(["cargo", "build", "--release", "--offline"], cwd=HARNESS, env=env,
                       stdout=subprocess.PIPE, stderr=subprocess.STDOUT, text=True, timeout=3600)
    return p.returncode, p.stdout


def modelled_fields():
    """names of the field types the Lean registry models (asked from the compiled driver, so the two cannot drift)"""
    exe = os.path.join(LEAN, ".lake", "build", "bin", "driver")
    try:
        p = subprocess.run([exe], input="fldlist\n", stdout=subprocess.PIPE, text=True, timeout=60)
        return p.stdout.strip()
    except Exception:
        return ""


def run_harness(stream, tier, seed, outdir, extra=()):
    os.makedirs(outdir, exist_ok=True)
    exe = os.path.join(HARNESS, "target", "release", "swiftmt-harness")
    extra = [modelled_fields() if x == "@modelled" else x for x in extra]
    cmd = [exe, stream, "--tier", tier, "--seed", str(seed), "--out", outdir] + list(extra)
    t = time.time()
    try:
        rc, out = sh(cmd, cwd=HARNESS, timeout=6 * 3600)
    except subprocess.TimeoutExpired:
        return {"crashed": True, "stream": stream, "log": "timeout"}
    rp = os.path.join(outdir, "report.json")
    if rc != 0 or not os.path.exists(rp):
        return {"crashed": True, "stream": stream, "rc": rc, "log": out[-1500:]}
    r = json.load(open(rp))
    r["stream"] = stream
    r["wall_s"] = round(time.time() - t, 2)
    return r


def run_driver(outdir):
    """Pipe the harness's request lines through the compiled Lean model and diff with the implementation."""
    req = os.path.join(outdir, "model_requests.txt")
    exp = os.path.join(outdir, "impl_outcomes.txt")
    if not os.path.exists(req) or os.path.getsize(req) == 0:
        return {"cases": 0, "disagreements": []}
    exe = os.path.join(LEAN, ".lake", "build", "bin", "driver")
    with open(req) as f:
        p = subprocess.run([exe], stdin=f, stdout=subprocess.PIPE, stderr=subprocess.PIPE, text=True, timeout=6 * 3600)
    got = p.stdout.splitlines()
    want = open(exp).read().splitlines()
    reqs = open(req).read().splitlines()
    dis = []
    if p.returncode != 0 or len(got) != len(want):
        dis.append({"request": "<driver>", "model": f"rc={p.returncode} lines={len(got)} stderr={p.stderr[-300:]}", "impl": f"lines={len(want)}"})
    for r, g, w in zip(reqs, got, want):
        if w == "#skip" or g == "#skip":
            continue
        if g != w:
            dis.append({"request": r[:4000], "model": g[:2000], "impl": w[:2000]})
    return {"cases": len(want), "disagreements": dis}


# ------------------------------------------------------------------------------------------------

def load_known():
    p = os.path.join(ROOT, "known_findings.json")
    if not os.path.exists(p):
        return []
    return json.load(open(p)).get("findings", [])


def classify(pid, failures, known):
    """failures: {key: [witness…]}.  Returns (known_hits, new)."""
    # a finding is identified by one key pattern (`key`) or by an explicit list of them (`keys`)
    open_keys = [(pat, k) for k in known if k.get("property") == pid and k.get("status", "open") == "open"
                 for pat in (k.get("keys") or [k["key"]])]
    hits, new = {}, {}
    for key, wit in failures.items():
        for pat, k in open_keys:
            if key == pat or fnmatch.fnmatchcase(key, pat):
                hits.setdefault(k["id"], {"finding": k, "keys": []})["keys"].append(key)
                break
        else:
            new[key] = wit
    return hits, new


def write_replay(pid, n, body):
    d = os.path.join(ROOT, "replay", pid)
    os.makedirs(d, exist_ok=True)
    p = os.path.join(d, f"{n:03d}.json")
    with open(p, "w") as f:
        json.dump(body, f, indent=1)
    return p


def run_check(pid, tier, seed, replay=None):
    cfg = PROPS[pid]
    t0 = time.time()
    rundir = os.path.join(ROOT, ".run", f"{pid}-{os.getpid()}")
    shutil.rmtree(rundir, ignore_errors=True)
    os.makedirs(rundir)
    if replay:
        # the file to replay may itself live in this property's replay directory: keep a copy before that is cleared
        if not os.path.isfile(replay):
            print(f"replay file {replay} does not exist")
            return 2
        kept = os.path.join(rundir, "replay_input.json")
        shutil.copy(replay, kept)
        replay = kept
    # a previous run's replay files for this property are stale
    shutil.rmtree(os.path.join(ROOT, "replay", pid), ignore_errors=True)
    broken = []        # ties that no longer check: {kind, what, detail}
    with Lock():
        regen = regenerate()
        for u in regen.get("untranslated", []):
            if u.get("extractor") in cfg.get("extractors", []) or u.get("extractor") == "*":
                broken.append({"kind": "untranslated", "what": u["item"], "detail": u["why"]})
        targets = [f"SwiftMT.Props.{pid}"] + (["driver"] if cfg.get("driver") else [])
        rc, out, errors = lake_build(targets)
        build_ok = rc == 0
        if not build_ok:
            if not errors:
                errors = [{"file": "?", "line": 0, "msg": out[-800:]}]
            for e in errors:
                broken.append({"kind": "obligation_failed", "what": f"{e['file']}:{e['line']} ({theorem_at(e['file'], e['line'])})", "detail": e["msg"]})
        audit_problems, axioms, used_axioms = ([], {}, [])
        if build_ok:
            audit_problems, axioms, used_axioms = audit(pid)
            for a in audit_problems:
                broken.append({"kind": "audit", "what": a, "detail": ""})
        crc, cout = cargo_build()
        if crc != 0:
            broken.append({"kind": "harness_build_failed", "what": "cargo build of the harness against the working tree", "detail": cout[-1500:]})
    leanchecker = None
    if tier == "thorough" and build_ok:
        lrc, lout = sh(["lake", "env", "leanchecker", f"SwiftMT.Props.{pid}"], cwd=LEAN, timeout=3600)
        leanchecker = lrc
        if lrc != 0:
            broken.append({"kind": "leanchecker", "what": f"SwiftMT.Props.{pid}", "detail": lout[-500:]})

    reports, failures, disagreements, model_cases = [], {}, [], 0
    if crc == 0:
        eff_tier = tier
        if broken and tier == "quick" and cfg.get("escalate", True):
            eff_tier = "thorough"   # directed search: a tie broke, look harder for a failing input
        for stream in cfg["streams"]:
            sd = os.path.join(rundir, stream)
            extra = (["--replay", replay] if replay else []) + list(cfg.get("stream_args", {}).get(stream, []))
            r = run_harness(stream, eff_tier, seed, sd, extra)
            reports.append(r)
            if r.get("crashed"):
                broken.append({"kind": "harness_crashed", "what": stream, "detail": r.get("log", "")})
                continue
            for k, w in r.get("failures", {}).items():
                failures.setdefault(k, []).extend(w)
            if cfg.get("driver") and os.path.exists(os.path.join(LEAN, ".lake", "build", "bin", "driver")) and build_ok:
                d = run_driver(sd)
                model_cases += d["cases"]
                for x in d["disagreements"]:
                    x["stream"] = stream
                    disagreements.append(x)

    known = load_known()
    hits, new = classify(pid, failures, known)
    lines = []
    # every open finding carries a deterministic witness: replay it on the real code so that the KNOWN-FINDING line does
    # not depend on the seed, and so that a finding the code no longer exhibits is reported as stale
    if crc == 0 and not replay:
        for k in known:
            if k.get("property") != pid or k.get("status", "open") != "open" or not k.get("replay"):
                continue
            rp = os.path.join(rundir, f"known_{k['id']}.json")
            with open(rp, "w") as f:
                json.dump({"property": pid, "witness": k["replay"]["witness"], "finding_key": k["replay"].get("key")}, f)
            r = run_harness(k["replay"]["stream"], "quick", seed, os.path.join(rundir, "known_" + k["id"]),
                            ["--replay", rp] + list(cfg.get("stream_args", {}).get(k["replay"]["stream"], [])))
            still = [key for key in r.get("failures", {}) if any(key == pat or fnmatch.fnmatchcase(key, pat) for pat in (k.get("keys") or [k["key"]]))]
            if still:
                hits.setdefault(k["id"], {"finding": k, "keys": []})["keys"].extend(still)
            elif k["id"] not in hits:
                lines.append(f"STALE-FINDING: property={pid} {k['id']}: its recorded witness no longer fails on the current tree")
    nrep = 0
    for fid, h in sorted(hits.items()):
        lines.append(f"KNOWN-FINDING: property={pid} {fid}: {h['finding']['what']}")
    for key, wit in sorted(new.items()):
        nrep += 1
        p = write_replay(pid, nrep, {"property": pid, "tier": tier, "seed": seed, "kind": "impl_violates_property",
                                     "finding_key": key, "witness": wit[0] if wit else None, "more": wit[1:3]})
        lines.append(f"VIOLATION property={pid} replay={p}")
    if disagreements:
        nrep += 1
        p = write_replay(pid, nrep, {"property": pid, "tier": tier, "seed": seed, "kind": "model_disagrees",
                                     "note": "the Lean model and the implementation differ on these inputs; the theorems no longer describe the code",
                                     "disagreements": disagreements[:20], "count": len(disagreements)})
        # a disagreement is a concrete input, but not necessarily one on which the *property* fails - unless the model's
        # answer is itself the documented verdict (C04: rule model proved equivalent to the documented condition; C05: field
        # model proved equivalent to the documented format), in which case the disagreeing input is the failing input
        suffix = "" if (new or cfg.get("disagreement_is_failing_input")) else " no-failing-input-found"
        lines.append(f"VIOLATION property={pid} replay={p}{suffix}")
    if broken:
        nrep += 1
        p = write_replay(pid, nrep, {"property": pid, "tier": tier, "seed": seed, "kind": "tie_broken",
                                     "broken": broken,
                                     "note": "proof obligation / translation / audit no longer checks on the current tree"})
        suffix = "" if new else " no-failing-input-found"
        lines.append(f"VIOLATION property={pid} replay={p}{suffix}")

    # evidence
    ns, names, examples = prop_theorems(pid)
    inst = cfg.get("instances", lambda g: 0)
    try:
        gen = json.load(open(os.path.join(GEN, "generated.json")))
    except Exception:
        gen = {}
    n_inst = inst(gen) if callable(inst) else int(inst)
    obligations = len(names) + n_inst
    failed_thms = {b["what"] for b in broken if b["kind"] in ("obligation_failed", "untranslated", "audit", "leanchecker")}
    discharged = obligations if not failed_thms else max(0, obligations - len(failed_thms))
    evals = sum(r.get("evaluations", 0) for r in reports if not r.get("crashed"))
    distinct = sum(r.get("distinct_nontrivial", 0) for r in reports if not r.get("crashed"))
    samples = []
    for r in reports:
        samples.extend(r.get("samples", [])[:6])
    samples.extend({"theorem": f"{ns}.{n}", "axioms": axioms.get(f"{ns}.{n}", [])} for n in names[:8])
    ev = {
        "property_id": pid, "tier": tier, "seed": seed, "level": "proof",
        "coverage": {
            "obligations": obligations, "discharged": discharged,
            "checker_cmd": f"cd /verif/lean && lake build SwiftMT.Props.{pid} && lake env lean ../.gen/Audit_{pid}.lean" + (f" && lake env leanchecker SwiftMT.Props.{pid}" if tier == "thorough" else ""),
            "trusted_base": cfg["trusted_base"] + [f"axioms used by the property theorems: {used_axioms or 'none'}"],
            "theorems": names, "non_vacuity_examples": examples, "instance_obligations": n_inst,
            "translator": {"changed_files": regen.get("changed", []), "untranslated": regen.get("untranslated", [])},
            "evaluations": evals, "distinct_nontrivial": distinct,
            "rule": cfg.get("rule", ""),
            "samples": samples or [{"note": "no harness cases in this run"}],
            "correspondence": {"model_vs_impl_cases": model_cases, "disagreements": len(disagreements)},
            "oracle": {"failure_keys": {k: len(v) for k, v in failures.items()},
                       "known_findings_hit": sorted(hits.keys()), "new": sorted(new.keys())},
            "streams": [{k: r.get(k) for k in ("stream", "evaluations", "distinct_nontrivial", "distribution", "notes", "wall_s", "failure_counts", "crashed")} for r in reports],
            "modelled": cfg.get("modelled", ""),
            "exhaustive": bool(cfg.get("exhaustive", False)),
            "leanchecker_rc": leanchecker,
            "ties_broken": broken,
        },
        "assumptions": cfg.get("assumptions", []),
        "wall_s": round(time.time() - t0, 2),
        "violations": sum(1 for l in lines if l.startswith("VIOLATION")),
    }
    os.makedirs(os.path.join(ROOT, "evidence"), exist_ok=True)
    with open(os.path.join(ROOT, "evidence", f"{pid}.json"), "w") as f:
        json.dump(ev, f, indent=1)
    shutil.rmtree(rundir, ignore_errors=True)
    for l in lines:
        print(l)
    nviol = ev["violations"]
    print(f"{pid} {tier}: obligations {discharged}/{obligations}, model-vs-impl {model_cases} cases ({len(disagreements)} disagreements), "
          f"oracle {evals} cases, known findings hit {len(hits)}, violations {nviol}, {ev['wall_s']}s")
    return 1 if nviol else 0


def setup():
    with Lock():
        r = regenerate()
        print("translator:", json.dumps(r.get("untranslated", [])))
        rc, out, _ = lake_build(["SwiftMT", "driver"])
        print(out[-1500:])
        if rc != 0:
            return 1
        crc, cout = cargo_build()
        print(cout[-800:])
        return 0 if crc == 0 else 1


def main():
    ap = argparse.ArgumentParser()
    ap.add_argument("pid", nargs="?")
    ap.add_argument("--tier", default=os.environ.get("VERIF_TIER", "quick"), choices=["quick", "thorough"])
    ap.add_argument("--replay")
    ap.add_argument("--setup", action="store_true")
    a = ap.parse_args()
    if a.setup:
        sys.exit(setup())
    if a.pid not in PROPS:
        print(f"unknown property {a.pid}; known: {sorted(PROPS)}")
        sys.exit(2)
    try:
        seed = int(os.environ.get("VERIF_SEED", "1"))
    except ValueError:
        seed = 1
    sys.exit(run_check(a.pid, a.tier, seed, a.replay))


if __name__ == "__main__":
    main()
