#!/usr/bin/env python3
"""Writes MANIFEST.json from props.py + manifest_texts.py (kept generated so the two never drift)."""
import json, os, sys
sys.path.insert(0, os.path.dirname(os.path.abspath(__file__)))
from props import PROPS
from manifest_texts import TEXTS, NOT_APPLICABLE

checks = []
for pid in sorted(PROPS):
    t = TEXTS[pid]
    checks.append({
        "property_id": pid,
        "quick_cmd": f"python3 check.py {pid} --tier quick",
        "thorough_cmd": f"python3 check.py {pid} --tier thorough",
        "evidence_file": f"/verif/evidence/{pid}.json",
        "replay_cmd_template": f"python3 check.py {pid} --replay {{path}}",
        "engine": "lean4-proof+correspondence",
        "level_claimed": {"category": "proof", "text": t["text"], "design_ref": t["design_ref"]},
        "level_note": t["note"],
        "technique": t["technique"],
    })
m = {
    "version": 1,
    "setup_cmd": "python3 check.py --setup",
    "hooks": {
        "guard": "swiftmt_verif",
        "enable": "RUSTFLAGS=\"--cfg swiftmt_verif\" (set by check.py when it builds the harness against /repo); no source hooks exist: every function the models correspond to is reachable through the public API",
        "baseline_off_cmd": "cd /repo && cargo test --workspace --no-fail-fast --offline",
        "source_commits": [],
        "add_only": True,
    },
    "engines": [
        {"name": "lean4-proof+correspondence", "path": "/verif/check.py",
         "serves_properties": sorted(PROPS),
         "kind_free_text": "Lean 4 theorems over a model regenerated from the source by /verif/translator (tables, layouts, stage lists) and hand-written kernels tied by a Rust differential harness through a compiled Lean driver; property oracles on the implementation search for failing inputs"},
    ],
    "checks": checks,
    "not_applicable": [{"property_id": k, "reason": v} for k, v in sorted(NOT_APPLICABLE.items()) if k not in PROPS],
    "notes": "See DESIGN.md. known_findings.json lists genuine defects (open or fixed); fix: commits in /repo repair the ones that were small and safe.",
}
json.dump(m, open(os.path.join(os.path.dirname(os.path.abspath(__file__)), "MANIFEST.json"), "w"), indent=1)
print("checks:", [c["property_id"] for c in checks], "not_applicable:", [n["property_id"] for n in m["not_applicable"]])
