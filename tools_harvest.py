#!/usr/bin/env python3
"""Maintenance helper (never called by the checks): run a harness stream and copy a witness for each OPEN finding of a
property into known_findings.json as its deterministic replay case.  usage: tools_harvest.py C01 c01 [seed] [tier]"""
import fnmatch, json, os, subprocess, sys, tempfile
pid, stream = sys.argv[1], sys.argv[2]
seed = sys.argv[3] if len(sys.argv) > 3 else "1"
tier = sys.argv[4] if len(sys.argv) > 4 else "thorough"
d = tempfile.mkdtemp(dir="/verif/.run" if os.path.isdir("/verif/.run") else None)
subprocess.run(["/verif/harness/target/release/swiftmt-harness", stream, "--tier", tier, "--seed", seed, "--out", d], check=True)
rep = json.load(open(os.path.join(d, "report.json")))
kf = json.load(open("/verif/known_findings.json"))
for f in kf["findings"]:
    if f["property"] != pid or f.get("status") != "open" or f.get("replay"):
        continue
    for key, wit in rep["failures"].items():
        if fnmatch.fnmatchcase(key, f["key"]):
            f["replay"] = {"stream": stream, "key": key, "witness": wit[0]}
            print("harvested", f["id"], key)
            break
json.dump(kf, open("/verif/known_findings.json", "w"), indent=1)
