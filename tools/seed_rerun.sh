#!/bin/bash
# tools/seed_rerun.sh <seed-name> <checks>   re-run registered checks against a kept seed (no confirmation step)
cd /verif
name=$1; checks=$2
prop=${name%%-*}
python3 tools/seed_eval.py $prop /verif/seeded/$name /tmp/none --name $name --checks $checks --skip-confirm 2>&1 | grep -E "^C[0-9]+ ->|kept|does not apply|refusing"
git -C /repo status --porcelain | head -3
python3 translator/rs2lean.py > /dev/null 2>&1
