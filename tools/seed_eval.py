#!/usr/bin/env python3
"""Confirm a seeded defect and run the registered check against it.

  tools/seed_eval.py <PROP> <dir with patch.diff, demo *.rs, meta.json> <worktree> [--checks C01,C09] [--tier quick]

1. in the scratch worktree: apply the patch, drop the demo into tests/, run the existing suite (must pass) and the
   demo (must fail); revert the patch, run the demo again (must pass);
2. apply the patch to /repo, run the check(s), undo it straight afterwards;
3. copy the seed to /verif/seeded/<name>/ with what was observed (meta.json gets `confirmed` and `detected_by`).
"""
import json, os, re, shutil, subprocess, sys, glob

ROOT = os.path.dirname(os.path.dirname(os.path.abspath(__file__)))
ENV = dict(os.environ, CARGO_NET_OFFLINE="true")


def sh(cmd, cwd=None, timeout=3600):
    p = subprocess.run(cmd, cwd=cwd, env=ENV, shell=isinstance(cmd, str), stdout=subprocess.PIPE, stderr=subprocess.STDOUT, text=True, timeout=timeout)
    return p.returncode, p.stdout


def confirm(wt, patch, demos):
    obs = {}
    sh("git checkout -- . && git clean -fdq -- tests src", cwd=wt)
    rc, out = sh(["git", "apply", patch], cwd=wt)
    if rc != 0:
        print("patch does not apply:", out)
        sys.exit(1)
    for d in demos:
        shutil.copy(d, os.path.join(wt, "tests", os.path.basename(d)))
    demo_names = [os.path.basename(d)[:-3] for d in demos]
    demo_fail, other_fail = False, False
    rc, full = sh("cargo test --offline --no-fail-fast 2>&1", cwd=wt)
    obs["suite_with_change"] = [l for l in full.splitlines() if l.startswith("test result")]
    cur = None
    for line in full.splitlines():
        m = re.search(r"Running (?:unittests )?(\S+)", line)
        if m:
            cur = m.group(1)
        if "Doc-tests" in line:
            cur = "doctests"
        m = re.match(r"test result: (\w+)\.", line)
        if m and m.group(1) != "ok":
            if cur and any(dn in cur for dn in demo_names):
                demo_fail = True
            else:
                other_fail = True
    obs["existing_tests_pass_with_change"] = not other_fail
    obs["demo_fails_with_change"] = demo_fail
    sh(["git", "apply", "-R", patch], cwd=wt)
    ok_without = True
    for dn in demo_names:
        rc, out = sh(["cargo", "test", "--offline", "--test", dn], cwd=wt)
        if rc != 0:
            ok_without = False
            obs["demo_without_change_output"] = out[-600:]
    obs["demo_passes_without_change"] = ok_without
    sh("git checkout -- . && git clean -fdq -- tests src", cwd=wt)
    obs["confirmed"] = obs["existing_tests_pass_with_change"] and demo_fail and ok_without
    return obs, obs["confirmed"]


def main():
    prop, sdir, wt = sys.argv[1], sys.argv[2].rstrip("/"), sys.argv[3]
    checks = [prop]
    tier = "quick"
    name = None
    for i, a in enumerate(sys.argv):
        if a == "--checks":
            checks = sys.argv[i + 1].split(",")
        if a == "--tier":
            tier = sys.argv[i + 1]
        if a == "--name":
            name = sys.argv[i + 1]
    name = name or f"{prop}-{os.path.basename(sdir)}"
    patch = os.path.join(sdir, "patch.diff")
    demos = [f for f in glob.glob(os.path.join(sdir, "*.rs"))]
    meta = json.load(open(os.path.join(sdir, "meta.json")))
    obs = {}
    skip_confirm = "--skip-confirm" in sys.argv
    if skip_confirm:
        prev = os.path.join(ROOT, "seeded", name, "meta.json")
        pm = json.load(open(prev)) if os.path.exists(prev) else {}
        obs = pm.get("confirmation", {})
        confirmed = obs.get("confirmed", False)
        prev_checks = pm.get("checks_run", {})
    else:
        prev_checks = {}
        obs, confirmed = confirm(wt, patch, demos)
        print(json.dumps(obs, indent=1))
    # 2. run the checks against it
    detected = dict(prev_checks)
    if confirmed:
        rc, out = sh(["git", "-C", "/repo", "status", "--porcelain"])
        if out.strip():
            print("/repo is not clean; refusing to apply")
            sys.exit(1)
        rc, out = sh(["git", "-C", "/repo", "apply", patch])
        if rc != 0:
            print("patch does not apply to the current /repo HEAD (the code it changes has been fixed since):", out.strip()[:300])
            meta["note"] = "patch no longer applies to the current HEAD: " + out.strip()[:200]
            checks = []
        # the checks rewrite evidence/<id>.json: what a run against a seeded tree writes must not stay behind
        ev_backup = os.path.join("/tmp", f"evidence-backup-{os.getpid()}")
        shutil.rmtree(ev_backup, ignore_errors=True)
        shutil.copytree(os.path.join(ROOT, "evidence"), ev_backup)
        try:
            for c in checks:
                rc, out = sh([sys.executable, os.path.join(ROOT, "check.py"), c, "--tier", tier], cwd=ROOT, timeout=7200)
                viol = [l for l in out.splitlines() if l.startswith("VIOLATION")]
                detected[c] = {"exit": rc, "violation_lines": viol, "summary": out.strip().splitlines()[-1] if out.strip() else ""}
                rep = []
                for v in viol:
                    m = re.search(r"replay=(\S+)", v)
                    if m and os.path.exists(m.group(1)):
                        try:
                            r = json.load(open(m.group(1)))
                            rep.append({"kind": r.get("kind"), "finding_key": r.get("finding_key"), "broken": [b.get("what") for b in r.get("broken", [])][:4],
                                        "witness": json.dumps(r.get("witness") or (r.get("disagreements") or [None])[0])[:500]})
                        except Exception as e:
                            rep.append({"error": str(e)})
                detected[c]["replays"] = rep
                print(c, "->", rc, viol[:3])
        finally:
            sh(["git", "-C", "/repo", "checkout", "--", "."])
            for f in os.listdir(ev_backup):
                shutil.copy(os.path.join(ev_backup, f), os.path.join(ROOT, "evidence", f))
            shutil.rmtree(ev_backup, ignore_errors=True)
            shutil.rmtree(os.path.join(ROOT, "replay"), ignore_errors=True)
    # 3. keep
    dst = os.path.join(ROOT, "seeded", name)
    os.makedirs(dst, exist_ok=True)
    if os.path.abspath(sdir) != os.path.abspath(dst):
        shutil.copy(patch, os.path.join(dst, "patch.diff"))
        for d in demos:
            shutil.copy(d, os.path.join(dst, os.path.basename(d)))
    meta["confirmation"] = obs
    meta["checks_run"] = detected
    meta["detected"] = any(v["exit"] != 0 for v in detected.values())
    json.dump(meta, open(os.path.join(dst, "meta.json"), "w"), indent=1)
    print("kept in", dst, "detected:", meta["detected"])


if __name__ == "__main__":
    main()
