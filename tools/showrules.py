#!/usr/bin/env python3
"""print the rule functions (and the helpers / consts they use) of a message file, docs and long literals elided"""
import re, sys
src = open(sys.argv[1]).read()
i = src.find("#[cfg(test)]")
if i >= 0: src = src[:i]
lines = [l for l in src.splitlines() if not l.strip().startswith("//")]
src = "\n".join(lines)
def fn_bodies(src):
    for m in re.finditer(r"\n    (?:pub )?(?:const )?fn (\w+)[^{]*\{", src):
        depth, j = 1, m.end()
        while depth and j < len(src):
            depth += {"{": 1, "}": -1}.get(src[j], 0); j += 1
        yield m.group(1), src[m.start():j]
skip = {"parse_from_block4", "to_mt_string", "validate_network_rules", "parse", "message_type"}
for name, body in fn_bodies(src):
    if name in skip or name.startswith("parse_") or name.startswith("to_"): continue
    body = re.sub(r'"([^"\n]{40})[^"\n]*"', r'"\1…"', body)
    body = re.sub(r"\n\s*\n", "\n", body)
    print(body)
for m in re.finditer(r"\n    (?:pub )?const \w+:[^;]*;", src):
    print(re.sub(r"\s+", " ", m.group(0))[:600])
