"""Texts for MANIFEST.json (level_claimed / level_note / technique per property)."""
NOT_YET = "not claimed yet in this commit: the model/theorems for this property are still being built (see DESIGN.md §8); it will be claimed as soon as its check exists"
NOT_APPLICABLE = {f"C{i:02d}": NOT_YET for i in range(1, 18)}

TEXTS = {
    "C01": {
        "text": "Lean 4 theorems, for every input text and every history of MessageParser requests (hence for any parse_from_block4): each "
                "successful extraction consumes exactly `white space ++ :tag: ++ content ++ newline` from the front of the remaining text, "
                "the content contains no hidden field start, the input equals the concatenation of the consumed regions plus a remainder "
                "that the completeness check forces to be the terminator; the 30 parse_from_block4 bodies are regenerated into call lists and "
                "the kernel re-decides that each ends with the completeness check and propagates every parse result. The hand model of the "
                "extraction kernel is compared with the real code on adversarial inputs; an independent-tokeniser oracle runs valid and mutated "
                "messages of all 30 types through the real parser and serialiser.",
        "design_ref": "DESIGN.md §5 C01, §4 T1",
        "note": "Trusted: Lean kernel; hand models of field_extractor.rs / message_parser.rs (sampled correspondence, not proved); translator T1 "
                "(call list, `?` propagation, completeness check; it does not prove that each stored local reaches the struct — the oracle covers "
                "that); content equality per field is C02. Open findings are listed in known_findings.json.",
        "technique": "Lean 4 proof (induction over request histories and text) over a hand model tied by differential correspondence, plus kernel-decided facts over translator-regenerated layouts; independent-tokeniser oracle for search",
    },
    "C09": {
        "text": "Lean 4 theorems over the MessageParser model: a required field that is not next is reported as missing with its tag; a field "
                "whose content is rejected is reported with its tag and exactly the content read, and only the field that is next can be "
                "blamed; per type the kernel re-decides (over the regenerated call lists) that every mandatory read propagates its error. The "
                "oracle deletes every mandatory occurrence and corrupts every occurrence of generated messages of all 30 types.",
        "design_ref": "DESIGN.md §5 C09",
        "note": "Trusted: as C01. Sequence-level absences (a deleted marker field, an empty mandatory sequence) are reported by the library as "
                "'unparsed content' / free text: listed as open findings, not proved.",
        "technique": "Lean 4 proof over the MessageParser model + kernel-decided layout facts; deletion/corruption oracle on the implementation",
    },
    "C12": {
        "text": "Lean 4 theorems, for EVERY announced type code (unbounded Nat, hence all of 000-999) and every requested type: "
                "auto parse, typed parse (T03 mismatch off the diagonal), wrapper, parse_mt, validate_mt and publish_mt (both key "
                "spellings) dispatch to the announced type exactly when it is one of the 30 documented types and report it as "
                "unsupported otherwise. The dispatch tables the theorems talk about are regenerated from the Rust source on every "
                "run; the kernel re-decides `DiagOn table supported` for each, and the compiled model is compared with the real "
                "entry points on the exhaustive 30x30 + 1000-code enumeration.",
        "design_ref": "DESIGN.md §5 C12, §4 T4",
        "note": "Trusted: Lean kernel; translator T4 (match-arm extraction; unknown shapes fail loudly as `untranslated`); the small hand "
                "model of how each entry point consults its table (SwiftMT/Dispatch.lean), validated exhaustively against the real code; "
                "entry-point glue (manual_unescape, clean_null_fields, serde) is exercised, not modelled. Axioms: propext only where simp uses it.",
        "technique": "Lean 4 proof over translator-regenerated dispatch tables (kernel `decide` of DiagOn + symbolic evaluation); exhaustive model-vs-implementation correspondence",
    },
    "C13": {
        "text": "Lean 4 theorem (induction over the stage list, arbitrary rule functions): stop-on-first-error output is a prefix of the "
                "full output and empty exactly when the full output is empty, instantiated for the stage list of each of the 30 "
                "validate_network_rules, regenerated from the source on every run (plus the check-sequence lemma for the one rule that "
                "receives the flag, MT941 C1). Validity flag coherence is a corollary. Order stability / purity / adapter agreement are "
                "tied by a source purity scan and by an oracle on the implementation over scenario draws and rule-violating JSON mutants.",
        "design_ref": "DESIGN.md §5 C13, §4 T6",
        "note": "Trusted: Lean kernel; translator T6 (three stage shapes + empty bodies; anything else is `untranslated` and fails the "
                "obligation); rule functions are treated as arbitrary pure functions (their determinism is sampled by the repeat oracle, "
                "not proved). Adapters (SwiftMessage::validate, ParsedSwiftMessage::validate, validate_mt) are compared with the full list "
                "by the harness on every case.",
        "technique": "Lean 4 proof by induction over translator-regenerated stage lists; implementation oracle (stop vs full, repeat, adapters) for search",
    },
}
