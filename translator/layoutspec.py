"""T9: /verif/spec/layouts.txt (the independent layout specification, also read by the harness's generator) as Lean data,
so that the generator and the kernel-checked `Implements` facts share one specification."""
import os
import re


def lean_str(s):
    return '"' + s.replace("\\", "\\\\").replace('"', '\\"') + '"'


def parse_items(text, unt, code):
    """returns flattened items: (base, letters, occ, n, seq_index or -1, marker)"""
    out = []
    seq_no = [0]

    def items_of(part, seq):
        first = True
        for raw in [x.strip() for x in part.split(";") if x.strip()]:
            m = re.fullmatch(r"(\d+[A-Z]?|\d+\{[^}]*\})\s+(M|O|Og|O~|O\*(\d+)|M\*(\d+))", raw)
            if not m:
                unt.append({"item": f"layouts.txt:{code}", "why": f"unrecognised item {raw!r}", "extractor": "T9"})
                continue
            tag, occ = m.group(1), m.group(2)
            if "{" in tag:
                base = tag[:tag.index("{")]
                letters = [("" if l.strip() == "-" else l.strip()) for l in tag[tag.index("{") + 1:-1].split(",")]
            else:
                mm = re.fullmatch(r"(\d+)([A-Z]?)", tag)
                base, letters = mm.group(1), [mm.group(2)]
            kind, n = {"M": ("m", 0), "O": ("o", 0), "Og": ("ogen", 0), "O~": ("oamb", 0)}.get(occ, (None, 0))
            if kind is None:
                kind, n = ("rep", int(m.group(3))) if occ.startswith("O*") else ("rep1", int(m.group(4)))
            out.append((base, letters, kind, n, seq, first and seq >= 0))
            first = False

    pos = 0
    for m in re.finditer(r"\[([^\]]*)\](\d+)\.\.(\d+)(!?)", text):
        items_of(text[pos:m.start()], -1)
        seq_no[0] += 1
        items_of(m.group(1), seq_no[0])
        pos = m.end()
    items_of(text[pos:], -1)
    return out


def generate(repo, unt):
    path = os.path.join(os.path.dirname(os.path.dirname(os.path.abspath(__file__))), "spec", "layouts.txt")
    specs = []
    for line in open(path, encoding="utf-8"):
        line = line.strip()
        if not line or line.startswith("#"):
            continue
        code, rest = line.split(":", 1)
        specs.append((int(code), parse_items(rest, unt, code)))
    L = ["namespace SwiftMT.Generated.LayoutSpec\n",
         "inductive Occ where\n  | m | o | ogen | oamb | rep (n : Nat) | rep1 (n : Nat)\n  deriving Repr, DecidableEq\n",
         "/-- one item of a documented layout, sequences flattened (`seq` = 0 outside sequences, else the sequence's number) -/",
         "structure SItem where\n  base : String\n  letters : List String\n  occ : Occ\n  seq : Nat\n  marker : Bool\n  deriving Repr\n",
         "def specs : List (Nat × List SItem) := ["]
    rows = []
    for code, items in specs:
        its = []
        for base, letters, kind, n, seq, marker in items:
            occ = f".{kind}" if kind in ("m", "o", "ogen", "oamb") else f".{kind} {n}"
            its.append(f"⟨{lean_str(base)}, [{', '.join(lean_str(l) for l in letters)}], {occ}, {max(seq, 0)}, {'true' if marker else 'false'}⟩")
        rows.append(f"  ({code}, [{', '.join(its)}])")
    L.append(",\n".join(rows))
    L.append("]\n")
    L.append("def untranslated : List String := [" + ", ".join(lean_str(u["item"] + ": " + u["why"]) for u in unt if u["extractor"] == "T9") + "]\n")
    L.append("end SwiftMT.Generated.LayoutSpec")
    return [("LayoutSpec", "\n".join(L) + "\n", [(c, [list(i) for i in its]) for c, its in specs])]
