"""T5r: the `const` tables the network-rule functions consult (code lists, pair lists, numeric caps, single code words) of every
src/messages/mt*.rs, as Lean data keyed by (message type, const name).  Literals only; anything else is untranslated."""
import glob
import os
import re

from tables import chars


def lean_str(s):
    return '"' + s.replace("\\", "\\\\").replace('"', '\\"') + '"'


def generate(repo, unt):
    lists, pairs, nums, words = [], [], [], []
    for path in sorted(glob.glob(os.path.join(repo, "src/messages/mt*.rs"))):
        code = int(re.search(r"mt(\d+)\.rs", path).group(1))
        src = open(path, encoding="utf-8").read()
        i = src.find("#[cfg(test)]")
        if i >= 0:
            src = src[:i]
        src = "\n".join(l.split("//")[0] for l in src.splitlines())
        for m in re.finditer(r"const (\w+)\s*:\s*([^=]+?)=\s*(.*?);", src, re.S):
            name, ty, body = m.group(1), " ".join(m.group(2).split()), m.group(3)
            if "[(" in ty:            # &[(&str, &[&str])]
                ps = re.findall(r'\(\s*"([^"]*)"\s*,\s*&\[([^\]]*)\]\s*,?\s*\)', body)
                if not ps:
                    unt.append({"item": f"mt{code}:{name}", "why": "pair table without literal entries", "extractor": "T5r"})
                pairs.append((code, name, [(a, re.findall(r'"([^"]*)"', b)) for a, b in ps]))
            elif "[" in ty and "str" in ty:
                items = re.findall(r'"([^"]*)"', body)
                if re.sub(r'"[^"]*"|[\s,&\[\]]', "", body):
                    unt.append({"item": f"mt{code}:{name}", "why": "non-literal entry in a string table", "extractor": "T5r"})
                lists.append((code, name, items))
            elif "usize" in ty or "u32" in ty or "u8" in ty:
                if re.fullmatch(r"\s*\d+\s*", body):
                    nums.append((code, name, int(body)))
                else:
                    unt.append({"item": f"mt{code}:{name}", "why": "non-literal number", "extractor": "T5r"})
            elif "str" in ty:
                w = re.fullmatch(r'\s*"([^"]*)"\s*', body)
                if w:
                    words.append((code, name, w.group(1)))
                else:
                    unt.append({"item": f"mt{code}:{name}", "why": "non-literal string", "extractor": "T5r"})
            else:
                unt.append({"item": f"mt{code}:{name}", "why": f"const of unrecognised type {ty}", "extractor": "T5r"})
    L = ["namespace SwiftMT.Generated.RuleTables\n",
         "/-- `const NAME: &[&str]` of src/messages/mtNNN.rs -/",
         "def lists : List (Nat × String × List (List Char)) := ["]
    L.append(",\n".join(f"  ({c}, {lean_str(n)}, [{', '.join(chars(x) for x in xs)}])" for c, n, xs in lists))
    L.append("]\n")
    L.append("/-- `const NAME: &[(&str, &[&str])]` -/\ndef pairs : List (Nat × String × List (List Char × List (List Char))) := [")
    L.append(",\n".join(f"  ({c}, {lean_str(n)}, [{', '.join('(' + chars(a) + ', [' + ', '.join(chars(x) for x in b) + '])' for a, b in ps)}])" for c, n, ps in pairs))
    L.append("]\n")
    L.append("def nums : List (Nat × String × Nat) := [" + ", ".join(f"({c}, {lean_str(n)}, {v})" for c, n, v in nums) + "]\n")
    L.append("def words : List (Nat × String × List Char) := [" + ", ".join(f"({c}, {lean_str(n)}, {chars(v)})" for c, n, v in words) + "]\n")
    L.append("def untranslated : List String := [" + ", ".join(lean_str(u["item"] + ": " + u["why"]) for u in unt if u["extractor"] == "T5r") + "]\n")
    L.append("end SwiftMT.Generated.RuleTables")
    return [("RuleTables", "\n".join(L) + "\n", {"lists": lists, "pairs": pairs, "nums": nums, "words": words})]
