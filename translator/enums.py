"""T3 (option enums): every `pub enum Field…` of src/fields with its variants, and how its `parse_with_variant`
treats a letter outside the family."""
import glob
import os
import re

from rslex import lex, Untranslatable, find_fns, find_impls, text, is_p, is_id, match_close
from tables import strip_tests, chars


def lean_str(s):
    return '"' + s.replace("\\", "\\\\").replace('"', '\\"') + '"'


def letter_of(name):
    """'A' from variant `A` / struct `Field50A`; '' for NoOption."""
    if name.endswith("NoOption"):
        return ""
    m = re.fullmatch(r"(?:Field\d+)?([A-Z])", name)
    if m:
        return m.group(1)
    raise Untranslatable(name, "cannot read an option letter from this name")


def generate(repo, unt):
    enums = []
    for path in sorted(glob.glob(os.path.join(repo, "src/fields/field[0-9]*.rs"))):
        try:
            toks = strip_tests(lex(open(path, encoding="utf-8").read()))
            impls = {hdr: (bo, bc) for hdr, bo, bc in find_impls(toks)}
            i = 0
            while i < len(toks) - 2:
                if is_id(toks[i], "enum") and toks[i + 1].kind == "id" and toks[i + 1].text.startswith("Field") and is_p(toks[i + 2], "{"):
                    name = toks[i + 1].text
                    close = match_close(toks, i + 2)
                    body = text(toks, i + 3, close)
                    body = re.sub(r"# \[ [^\]]* \] ", "", body)
                    variants = re.findall(r"(\w+) \( (\w+) \)", body)
                    if not variants:
                        raise Untranslatable(name, "no tuple variants")
                    base = re.match(r"Field(\d+)", name).group(1)
                    vs = [(v, letter_of(v), p, letter_of(p)) for v, p in variants]
                    key = f"SwiftField for {name}"
                    if key not in impls:
                        raise Untranslatable(name, "no SwiftField impl")
                    bo, bc = impls[key]
                    pwv = list(find_fns(toks, "parse_with_variant", bo, bc))
                    overrides = bool(pwv)
                    fallback, none_arm = True, False      # the trait default ignores the letter entirely
                    if overrides:
                        _, fo, fc = pwv[0]
                        b = text(toks, fo + 1, fc)
                        fallback = bool(re.search(r"_ => \{? ?(?:Self :: parse \( value \)|[^}]*Self :: parse \( value \))", b))
                        none_arm = "None =>" in b
                    enums.append({"name": name, "base": int(base), "variants": vs, "overrides": overrides, "fallback": fallback, "none_arm": none_arm})
                    i = close
                i += 1
        except Untranslatable as e:
            unt.append({"item": e.item, "why": e.why, "extractor": "T3"})
        except Exception as e:
            unt.append({"item": os.path.basename(path), "why": f"{type(e).__name__}: {e}", "extractor": "T3"})
    L = ["namespace SwiftMT.Generated.Enums\n",
         "structure Variant where\n  name : String\n  letter : List Char\n  structName : String\n  structLetter : List Char\n  deriving Repr\n",
         "structure EnumInfo where\n  name : String\n  base : Nat\n  variants : List Variant\n  /-- `parse_with_variant` is overridden (the trait default ignores the letter) -/\n  overrides : Bool\n  /-- a letter outside the family falls back to the content heuristic `Self::parse` -/\n  fallback : Bool\n  noneArm : Bool\n  deriving Repr\n",
         "def enums : List EnumInfo := ["]
    rows = []
    for e in enums:
        vs = ", ".join(f"⟨{lean_str(v)}, {chars(l)}, {lean_str(p)}, {chars(pl)}⟩" for v, l, p, pl in e["variants"])
        rows.append(f"  ⟨{lean_str(e['name'])}, {e['base']}, [{vs}], {'true' if e['overrides'] else 'false'}, {'true' if e['fallback'] else 'false'}, {'true' if e['none_arm'] else 'false'}⟩")
    L.append(",\n".join(rows))
    L.append("]\n")
    L.append("def untranslated : List String := [" + ", ".join(lean_str(u["item"] + ": " + u["why"]) for u in unt if u["extractor"] == "T3") + "]\n")
    L.append("end SwiftMT.Generated.Enums")
    return [("Enums", "\n".join(L) + "\n", enums)]
