"""T1/T2: message layouts (filled in later)."""
def generate(repo, unt):
    return []
