"""T1/T2: per-message-type layout facts regenerated from `parse_from_block4` / `to_mt_string`.

For every type the extractor finds the function that owns the `MessageParser`, lists every `parser.parse_*`
call in source order (method, field type, tag, whether its Result is propagated with `?`), checks that the
function ends with the completeness check, that every parsed local reaches the constructed value, and lists the
struct fields in the order the serialiser writes them next to the order the parser reads them.
Anything outside the recognised shapes is reported as untranslated.
"""
import glob
import os
import re

from rslex import lex, Untranslatable, find_fns, find_impls, text, is_p, is_id, match_close

METHODS = {"parse_field": 0, "parse_optional_field": 1, "parse_variant_field": 2, "parse_optional_variant_field": 3}


def lean_str(s):
    return '"' + s.replace("\\", "\\\\").replace('"', '\\"') + '"'


def owner_fn(toks, name):
    """(body_open, body_close) of the fn that creates the MessageParser, following `Self::`/`MTnnn::` delegation."""
    cands = []
    for so, bo, bc in find_fns(toks, "parse_from_block4"):
        body = text(toks, bo + 1, bc)
        if "MessageParser :: new (" in body:
            cands.append((bo, bc))
        elif not re.fullmatch(r"(?:Self|MT\d+) :: parse_from_block4 \( block4 \)", body):
            raise Untranslatable(f"{name}::parse_from_block4", f"neither a parser body nor a plain delegation: {body[:80]}")
    if len(cands) != 1:
        raise Untranslatable(f"{name}::parse_from_block4", f"{len(cands)} bodies that create a MessageParser")
    return cands[0]


SHARED = {}


def shared_helpers(repo):
    """Generic helpers of src/parser/utils.rs that take the `MessageParser`: name -> (type parameters, calls)."""
    out = {}
    path = os.path.join(repo, "src/parser/utils.rs")
    try:
        toks = lex(open(path, encoding="utf-8").read())
    except OSError:
        return out
    for i in range(len(toks) - 1):
        if is_id(toks[i], "fn") and toks[i + 1].kind == "id":
            fname = toks[i + 1].text
            for so, fo, fc in find_fns(toks, fname, i, len(toks)):
                sig = text(toks, so, fo)
                if "parser : & mut" in sig and "MessageParser" in sig:
                    g = re.match(r"fn \w+ < ([^(]*?) > \(", sig)
                    params = [x.split(":")[0].strip() for x in g.group(1).split(",")] if g else []
                    try:
                        out[fname] = (params, extract_calls(toks, fo, fc, f"utils::{fname}", {}))
                    except Untranslatable as e:
                        out[fname] = (params, e)       # reported only if a message type calls it
                break
    return out


def extract_calls(toks, lo, hi, name, helpers):
    """All `parser . METHOD :: < TY > ( "TAG" )` between lo and hi, inlining `Self::helper(&mut parser)` calls and
    calls of the generic helpers of src/parser/utils.rs (`helper::<A, B>(&mut parser)`, type parameters substituted)."""
    calls = []
    i = lo
    while i < hi:
        t = toks[i]
        if t.kind == "id" and t.text in SHARED and is_p(toks[i + 1], "::") and is_p(toks[i + 2], "<"):
            params, inner = SHARED[t.text]
            if isinstance(inner, Untranslatable):
                raise inner
            j = i + 3
            depth = 1
            while depth:
                if is_p(toks[j], "<"):
                    depth += 1
                elif is_p(toks[j], ">"):
                    depth -= 1
                j += 1
            args = [a.strip() for a in "".join(x.text for x in toks[i + 3:j - 1]).split(",") if a.strip()]
            if len(args) != len(params):
                raise Untranslatable(f"{name}", f"{t.text} called with {len(args)} type arguments at line {t.line}")
            if text(toks, j, j + 5) == "( & mut parser )":
                k = j + 5
            elif text(toks, j, j + 3) == "( parser )":
                k = j + 3
            else:
                raise Untranslatable(f"{name}", f"{t.text} not applied to the parser at line {t.line}")
            # `?` at the call, or the call is the tail expression of a helper whose own call site propagates
            prop = is_p(toks[k], "?") or is_p(toks[k], "}")
            sub = dict(zip(params, args))
            for c in inner:
                c2 = dict(c)
                c2["ty"] = sub.get(c["ty"], c["ty"])
                c2["propagated"] = c["propagated"] and prop
                if not prop:
                    c2["ctx"] = "helper-unpropagated"
                c2["line"] = t.line
                calls.append(c2)
            i = k
            continue
        if is_id(t, "parser") and is_p(toks[i + 1], ".") and toks[i + 2].kind == "id" and toks[i + 2].text in METHODS:
            m = toks[i + 2].text
            if not (is_p(toks[i + 3], "::") and is_p(toks[i + 4], "<")):
                raise Untranslatable(f"{name}", f"parser.{m} without a turbofish at line {t.line}")
            j = i + 5
            depth = 1
            while depth:
                if is_p(toks[j], "<"):
                    depth += 1
                elif is_p(toks[j], ">"):
                    depth -= 1
                j += 1
            ty = "".join(x.text for x in toks[i + 5:j - 1])
            if not (is_p(toks[j], "(") and toks[j + 1].kind == "str" and is_p(toks[j + 2], ")")):
                raise Untranslatable(f"{name}", f"parser.{m}::<{ty}> with a non-literal tag at line {t.line}")
            tag = toks[j + 1].text
            prop = is_p(toks[j + 3], "?")
            # how the result is bound when it is not propagated
            ctx = ""
            if not prop:
                back = text(toks, max(lo, i - 12), i)
                if "while let Ok (" in back:
                    ctx = "while-let-ok"
                elif "if let Ok (" in back:
                    ctx = "if-let-ok"
                else:
                    ctx = "unpropagated"
            calls.append({"method": m, "ty": ty, "tag": tag, "propagated": prop, "ctx": ctx, "line": t.line})
            i = j + 3
            continue
        if is_id(t, "Self") and is_p(toks[i + 1], "::") and toks[i + 2].kind == "id" and toks[i + 2].text in helpers \
                and text(toks, i + 3, i + 8) == "( & mut parser )":
            inner = helpers[toks[i + 2].text]
            prop = is_p(toks[i + 8], "?")
            for c in inner:
                c2 = dict(c)
                c2["propagated"] = c["propagated"] and prop
                if not prop:
                    c2["ctx"] = "helper-unpropagated"
                calls.append(c2)
            i += 8
            continue
        i += 1
    return calls


def one_type(path):
    name = os.path.basename(path)[:-3].upper()
    code = int(name[2:])
    toks = lex(open(path, encoding="utf-8").read())
    bo, bc = owner_fn(toks, name)
    # helper functions taking `parser: &mut …MessageParser`
    helpers = {}
    for i in range(len(toks) - 1):
        if is_id(toks[i], "fn") and toks[i + 1].kind == "id" and toks[i + 1].text != "parse_from_block4":
            fname = toks[i + 1].text
            for so, fo, fc in find_fns(toks, fname, i, len(toks)):
                sig = text(toks, so, fo)
                if "parser : & mut" in sig and "MessageParser" in sig:
                    helpers[fname] = extract_calls(toks, fo, fc, f"{name}::{fname}", {})
                break
    calls = extract_calls(toks, bo, bc, name, helpers)
    body = text(toks, bo + 1, bc)
    # completeness check immediately before the final Ok(
    ends = bool(re.search(r"verify_parser_complete \( & parser \) \? ; Ok \(", body)) or \
        bool(re.search(r"if ! parser \. is_complete \( \) \{ return Err \( .*?\) ; \} Ok \(", body))
    # no other way of consuming text than the four methods (+ detect/peek which do not move the cursor)
    other = sorted(set(re.findall(r"parser \. (\w+)", body)) - set(METHODS) - {"detect_field", "detect_variant_optional", "peek_field_variant", "with_duplicates", "is_complete", "remaining", "position"})
    if other:
        raise Untranslatable(name, f"unrecognised parser methods {other}")
    # results discarded: `let _ = parser.parse…` or a bare statement `parser.parse…(..)?;`
    discarded = len(re.findall(r"(?:let _ = |; |\{ )parser \. parse_\w+ :: <[^>]*> \( \"[^\"]*\" \) \?? ;", body))
    # early exits that return Ok before the completeness check
    early_ok = len(re.findall(r"return Ok \(", body))
    # repetition caps implemented by leaving a loop
    caps = len(re.findall(r"\. len \( \) >= \d+ \{ break ; \}", body)) + len(re.findall(r"&& \w+ \. len \( \) < \d+", body))
    # serialiser: struct fields in the order written
    ser = []
    for so, fo, fc in find_fns(toks, "to_mt_string"):
        b = text(toks, fo + 1, fc)
        if re.fullmatch(r"(?:Self|MT\d+) :: to_mt_string \( self \)", b):
            continue
        ser = re.findall(r"& (?:self|\w+) \. (\w+)", b)
        break
    return {"type": code, "calls": calls, "ends_complete": ends, "discarded": discarded, "early_ok": early_ok,
            "caps": caps, "ser_fields": ser}


def generate(repo, unt):
    layouts = []
    SHARED.clear()
    SHARED.update(shared_helpers(repo))
    for path in sorted(glob.glob(os.path.join(repo, "src/messages/mt*.rs"))):
        try:
            layouts.append(one_type(path))
        except Untranslatable as e:
            unt.append({"item": e.item, "why": e.why, "extractor": "T1"})
        except Exception as e:
            unt.append({"item": os.path.basename(path), "why": f"{type(e).__name__}: {e}", "extractor": "T1"})
    L = ["import SwiftMT.LayoutFacts\n", "namespace SwiftMT.Generated.Layouts\nopen SwiftMT\n"]
    L.append("/-- For every message type: the `parser.parse_*` calls of `parse_from_block4` in source order and the facts the C01 theorems need. -/")
    L.append("def layouts : List LayoutFacts := [")
    rows = []
    for l in layouts:
        calls = ", ".join(f"⟨{METHODS[c['method']]}, {lean_str(c['tag'])}, {lean_str(c['ty'])}, {'true' if c['propagated'] else 'false'}⟩" for c in l["calls"])
        rows.append(f"  ⟨{l['type']}, [{calls}], {'true' if l['ends_complete'] else 'false'}, {l['discarded']}, {l['early_ok']}, {len(l['ser_fields'])}⟩")
    L.append(",\n".join(rows))
    L.append("]\n")
    L.append("def untranslated : List String := [" + ", ".join(lean_str(u["item"] + ": " + u["why"]) for u in unt if u["extractor"] == "T1") + "]\n")
    L.append("end SwiftMT.Generated.Layouts")
    return [("Layouts", "\n".join(L) + "\n", layouts)]
