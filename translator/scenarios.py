"""T8: the shipped scenario files (test_scenarios/mt*/*.json) as expression trees, and the languages of the generator kinds.

Every leaf of a scenario's `schema.fields` becomes (scenario, tag, component path, Expr) with
    Expr ::= lit s | num s | fake kind args | cat2 a b | substr e start len | opaque why
(`var` is resolved through the scenario's `variables`; an n-ary `cat` becomes nested `cat2` ending in `lit ""`).
The closed operator set is {var, fake, cat, substr}; any other operator becomes `opaque` (its leaf is then not covered).

`fakeLangs`: for every `fake` kind (with its arguments) used by a scenario, an over-approximating language
(character set, minimum and maximum length), computed from the sources the generators are built from:
datafake-rs' operators/fake.rs (bic, iban, lei, alphanumeric, u64/i32, date: read as documented below) and the word
lists of the `fake` crate (locales/mod.rs: names, company suffixes, street / city parts, lorem words).  These are
ASSUMPTIONS about external crates (recorded in the trusted base); the `c15` stream draws from the real generators
and checks membership in these languages on every run.
"""
import glob
import json
import os
import re


def lean_str(s):
    out = []
    for ch in s:
        if ch == "\\":
            out.append("\\\\")
        elif ch == '"':
            out.append('\\"')
        elif ch == "\n":
            out.append("\\n")
        elif ch == "\r":
            out.append("\\r")
        elif ch == "\t":
            out.append("\\t")
        elif ord(ch) < 32 or ord(ch) > 126:
            out.append("\\u{%x}" % ord(ch))
        else:
            out.append(ch)
    return '"' + "".join(out) + '"'


def lean_chars(s):
    """a `List Char` literal (string literals are slow to take apart inside the kernel)"""
    def ch(c):
        if c == "'":
            return "'\\''"
        if c == "\\":
            return "'\\\\'"
        if c == "\n":
            return "'\\n'"
        if c == "\r":
            return "'\\r'"
        if c == "\t":
            return "'\\t'"
        if ord(c) < 32 or ord(c) > 126:
            return "(Char.ofNat %d)" % ord(c)
        return "'" + c + "'"
    return "[" + ", ".join(ch(c) for c in s) + "]"


def num_str(v):
    # how JSONLogic `cat` / serde_json print the number
    if isinstance(v, bool):
        return "true" if v else "false"
    if isinstance(v, int):
        return str(v)
    return repr(v)


class Ctx:
    def __init__(self, variables):
        self.vars = variables
        self.stack = []


def expr_of(v, ctx):
    if isinstance(v, str):
        return ("lit", v)
    if isinstance(v, bool) or v is None:
        return ("opaque", "bool/null literal")
    if isinstance(v, (int, float)):
        return ("num", num_str(v))
    if isinstance(v, dict) and len(v) == 1:
        op, arg = next(iter(v.items()))
        if op == "var":
            name = arg if isinstance(arg, str) else (arg[0] if isinstance(arg, list) and arg and isinstance(arg[0], str) else None)
            if name is None or name not in ctx.vars or name in ctx.stack:
                return ("opaque", f"var {arg!r}")
            ctx.stack.append(name)
            e = expr_of(ctx.vars[name], ctx)
            ctx.stack.pop()
            return e
        if op == "fake":
            if not (isinstance(arg, list) and arg and isinstance(arg[0], str)):
                return ("opaque", "fake without kind")
            return ("fake", arg[0], [a if isinstance(a, str) else num_str(a) for a in arg[1:]])
        if op == "cat":
            items = arg if isinstance(arg, list) else [arg]
            e = ("lit", "")
            for it in reversed(items):
                e = ("cat2", expr_of(it, ctx), e)
            return e
        if op == "substr":
            if isinstance(arg, list) and len(arg) == 3 and all(isinstance(x, int) and not isinstance(x, bool) and x >= 0 for x in arg[1:]):
                return ("substr", expr_of(arg[0], ctx), arg[1], arg[2])
            return ("opaque", f"substr with arguments {arg[1:] if isinstance(arg, list) else arg!r}")
        return ("opaque", f"operator {op}")
    return ("opaque", "object/array where a scalar is expected")


def lean_expr(e):
    k = e[0]
    if k == "lit":
        return f"(.lit {lean_chars(e[1])})"
    if k == "num":
        return f"(.num {lean_chars(e[1])})"
    if k == "fake":
        return f"(.fake {lean_str(e[1])} [{', '.join(lean_str(a) for a in e[2])}])"
    if k == "cat2":
        return f"(.cat2 {lean_expr(e[1])} {lean_expr(e[2])})"
    if k == "substr":
        return f"(.substr {lean_expr(e[1])} {e[2]} {e[3]})"
    return f"(.unknown {lean_str(e[1])})"


def fakes_in(e, out):
    if e[0] == "fake":
        out.add((e[1], tuple(e[2])))
    elif e[0] == "cat2":
        fakes_in(e[1], out)
        fakes_in(e[2], out)
    elif e[0] == "substr":
        fakes_in(e[1], out)


TAG = re.compile(r"\d\d[A-Z]?(_\w+)?")


def leaves_of(v, tag, path, ctx, out, idx=0):
    """walk schema.fields; `tag` is the enclosing field key once one has been entered; idx = position in the innermost array"""
    if isinstance(v, dict):
        if len(v) == 1 and next(iter(v)) in ("fake", "cat", "substr", "var", "if", "pick", "*", "+", "-", "/", "==", "!=", "and", "or", "!"):
            out.append((tag or "", path, idx, expr_of(v, ctx)))
            return
        for k, c in v.items():
            if k == "#":
                leaves_of(c, None, "", ctx, out)
            elif tag is None and TAG.fullmatch(k):
                leaves_of(c, k, "", ctx, out)
            else:
                leaves_of(c, tag, (path + "." + k) if path else k, ctx, out, idx)
    elif isinstance(v, list):
        for i, c in enumerate(v):
            leaves_of(c, tag, path + "[]", ctx, out, i)
    else:
        if v is None:
            return
        out.append((tag or "", path, idx, expr_of(v, ctx)))


# ------------------------------------------------------------------------------------------------
# generator languages
# ------------------------------------------------------------------------------------------------

UPPER = "ABCDEFGHIJKLMNOPQRSTUVWXYZ"
LOWER = UPPER.lower()
DIGITS = "0123456789"


def crate_dir(name):
    cands = sorted(glob.glob(os.path.expanduser(f"~/.cargo/registry/src/*/{name}-*")))
    return cands


def locale_lists(version_hint):
    """const NAME: &'static [&'static str] = &[...]; of fake's locales/mod.rs (the EN defaults)"""
    for d in crate_dir("fake"):
        if version_hint and not d.endswith("-" + version_hint):
            continue
        p = os.path.join(d, "src/locales/mod.rs")
        if os.path.exists(p):
            src = open(p, encoding="utf-8").read()
            lists = {}
            for m in re.finditer(r"const (\w+): &'static \[&'static str\]\s*=\s*&\[(.*?)\];", src, re.S):
                lists[m.group(1)] = [bytes(x, "utf-8").decode("unicode_escape") if "\\" in x else x for x in re.findall(r'"((?:[^"\\]|\\.)*)"', m.group(2))]
            tpls = {m.group(1): m.group(2) for m in re.finditer(r"const (\w+): &'static str = \"([^\"]*)\";", src)}
            return lists, tpls, d
    return {}, {}, None


def span(words):
    return (min(len(w) for w in words), max(len(w) for w in words), set("".join(words)))


def lang_of_kind(kind, args, lists, tpls):
    """(charset, min, max) or None"""
    def L(name):
        return span(lists[name])
    try:
        if kind == "bic8":
            return (UPPER + "1", 8, 8)
        if kind == "bic11":
            return (UPPER + DIGITS, 11, 11)
        if kind == "uuid":
            return ("0123456789abcdef-", 36, 36)
        if kind == "date":
            fmt = args[0] if args else "%Y-%m-%d"
            n = 0
            chars = set(DIGITS)
            i = 0
            while i < len(fmt):
                if fmt[i] == "%" and i + 1 < len(fmt):
                    n += {"Y": 4, "y": 2, "m": 2, "d": 2, "H": 2, "M": 2, "S": 2}.get(fmt[i + 1], 99)
                    i += 2
                else:
                    chars.add(fmt[i])
                    n += 1
                    i += 1
            return ("".join(sorted(chars)), n, n)
        if kind == "alphanumeric":
            a = int(args[0]) if args else 10
            b = int(args[1]) if len(args) > 1 else a
            return (DIGITS + UPPER, a, b)
        if kind in ("u64", "i32", "u32", "i64", "u16", "u8"):
            if len(args) != 2:
                return None
            a, b = int(args[0]), int(args[1])
            if a < 0:
                return None
            return (DIGITS, len(str(a)), len(str(b)))
        if kind == "iban":
            cc = args[0] if args else "DE"
            return ("".join(sorted(set(cc) | set(DIGITS))), len(cc) + 20, len(cc) + 20)
        if kind == "lei":
            return (DIGITS + UPPER, 20, 20)
        if kind == "country_code":
            lo, hi, cs = L("ADDRESS_COUNTRY_CODE")
            return ("".join(sorted(cs)), lo, hi)
        first, last = L("NAME_FIRST_NAME"), L("NAME_LAST_NAME")
        if kind in ("name", "full_name"):
            return ("".join(sorted(first[2] | last[2] | {" "})), first[0] + 1 + last[0], first[1] + 1 + last[1])
        if kind == "company_name":
            suf = L("COMPANY_SUFFIX")
            return ("".join(sorted(last[2] | suf[2] | set(" and"))), last[0] + 1 + suf[0], 2 * last[1] + 5 + 1 + suf[1])
        if kind == "street_address":
            ss = L("ADDRESS_STREET_SUFFIX")
            nm = (min(first[0], last[0]), max(first[1], last[1]), first[2] | last[2])
            # "{1..9998} {StreetName}" with StreetName = "{First|Last name} {StreetSuffix}", followed by a second " {StreetSuffix}"
            return ("".join(sorted(nm[2] | ss[2] | set(DIGITS) | {" "})), 1 + 1 + nm[0] + 1 + ss[0] + 1 + ss[0], 4 + 1 + nm[1] + 1 + ss[1] + 1 + ss[1])
        if kind in ("city", "city_name"):
            pre, suf = L("ADDRESS_CITY_PREFIX"), L("ADDRESS_CITY_SUFFIX")
            nm = (min(first[0], last[0]), max(first[1], last[1]), first[2] | last[2])
            full = (first[0] + 1 + last[0], first[1] + 1 + last[1])
            return ("".join(sorted(nm[2] | pre[2] | suf[2] | {" "})), nm[0] + 1 + suf[0], pre[1] + 1 + full[1] + 1 + suf[1])
        if kind == "bs":
            v, a, n = L("COMPANY_BS_VERBS"), L("COMPANY_BS_ADJ"), L("COMPANY_BS_NOUNS")
            return ("".join(sorted(v[2] | a[2] | n[2] | {" "})), v[0] + a[0] + n[0] + 2, v[1] + a[1] + n[1] + 2)
        if kind == "words":
            w = L("LOREM_WORD")
            k = int(args[0]) if args else 5
            return ("".join(sorted(w[2] | {" "})), k * w[0] + (k - 1), k * w[1] + (k - 1))
        if kind == "sentence":
            w = L("LOREM_WORD")
            a = int(args[0]) if args else 4
            b = int(args[1]) if len(args) > 1 else 10
            # Sentence(a..b): a..b-1 words joined by blanks, closed by a full stop (fake's impls/lorem.rs)
            return ("".join(sorted(w[2] | set(" ."))), a * w[0] + (a - 1) + 1, (b - 1) * w[1] + (b - 2) + 1)
    except (KeyError, ValueError):
        return None
    return None


def generate(repo, unt):
    scen = []
    kinds = set()
    files = sorted(f for f in glob.glob(os.path.join(repo, "test_scenarios/mt*/*.json")) if not f.endswith("index.json"))
    for f in files:
        ty = int(os.path.basename(os.path.dirname(f))[2:])
        name = os.path.basename(f)[:-5]
        try:
            j = json.load(open(f, encoding="utf-8"))
        except Exception as e:
            unt.append({"item": f"{ty}/{name}", "why": f"not JSON: {e}", "extractor": "T8"})
            continue
        ctx = Ctx(j.get("variables") or {})
        out = []
        fields = (j.get("schema") or {}).get("fields")
        if not isinstance(fields, dict):
            unt.append({"item": f"{ty}/{name}", "why": "no schema.fields object", "extractor": "T8"})
            continue
        leaves_of(fields, None, "", ctx, out)
        for _, _, _, e in out:
            fakes_in(e, kinds)
        # generator kinds anywhere in the file (headers, variables that only headers use)
        def all_fakes(v):
            if isinstance(v, dict):
                if len(v) == 1 and "fake" in v and isinstance(v["fake"], list) and v["fake"] and isinstance(v["fake"][0], str):
                    kinds.add((v["fake"][0], tuple(a if isinstance(a, str) else num_str(a) for a in v["fake"][1:])))
                for c in v.values():
                    all_fakes(c)
            elif isinstance(v, list):
                for c in v:
                    all_fakes(c)
        all_fakes(j)
        scen.append({"type": ty, "name": name, "leaves": out})
    # version of `fake` the repo locks
    ver = None
    try:
        lock = open(os.path.join(repo, "Cargo.lock"), encoding="utf-8").read()
        m = re.search(r'name = "fake"\nversion = "([^"]+)"', lock)
        ver = m.group(1) if m else None
    except OSError:
        pass
    lists, tpls, src_dir = locale_lists(ver)
    langs = []
    for kind, args in sorted(kinds):
        l = lang_of_kind(kind, list(args), lists, tpls) if lists else None
        if l is None:
            unt.append({"item": f"fake {kind} {list(args)}", "why": "no language known for this generator kind" if lists else "the `fake` crate's word lists were not found", "extractor": "T8"})
        else:
            langs.append((kind, list(args), l))
    # the leaves are spread over NPARTS modules so that lake elaborates them in parallel
    NPARTS = 8
    parts = [[] for _ in range(NPARTS)]
    names = []
    for i, sc in enumerate(scen):
        rows = []
        for tag, path, idx, e in sc["leaves"]:
            rows.append(f"  ⟨{sc['type']}, {lean_str(sc['name'])}, {lean_chars(tag)}, {lean_chars(path)}, {idx}, {lean_expr(e)}⟩")
        # long scenarios are cut into pieces of 40 leaves (elaboration depth)
        pieces = [rows[k:k + 40] for k in range(0, len(rows), 40)] or [[]]
        for k, piece in enumerate(pieces):
            nm = f"s{i}_{k}"
            names.append(nm)
            parts[i * NPARTS // max(1, len(scen))].append(f"def {nm} : List Leaf := [\n" + ",\n".join(piece) + "]\n")
    out_files = []
    for k, defs in enumerate(parts):
        body = ["import SwiftMT.Scenario\n", "namespace SwiftMT.Generated.Scenarios\nopen SwiftMT.Scenario\n"] + defs + ["end SwiftMT.Generated.Scenarios"]
        out_files.append((f"ScenariosPart{k}", "\n".join(body) + "\n", None))
    FL = ["import SwiftMT.Scenario\n", "namespace SwiftMT.Generated.Scenarios\nopen SwiftMT.Scenario\n"]
    FL.append("/-- languages of the `fake` generator kinds used by the shipped scenarios (character set, minimum and maximum length) -/")
    FL.append("def fakeLangs : List (String × List String × Lang) := [")
    FL.append(",\n".join(f"  ({lean_str(k)}, [{', '.join(lean_str(a) for a in args)}], ⟨{lean_chars(cs)}, {lo}, {hi}⟩)" for k, args, (cs, lo, hi) in langs))
    FL.append("]\n")
    FL.append("end SwiftMT.Generated.Scenarios")
    out_files.append(("FakeLangs", "\n".join(FL) + "\n", None))
    L = ["import SwiftMT.Scenario", "import SwiftMT.Generated.FakeLangs"] + [f"import SwiftMT.Generated.ScenariosPart{k}" for k in range(NPARTS)] + ["", "namespace SwiftMT.Generated.Scenarios\nopen SwiftMT.Scenario\n"]
    L.append("/-- every leaf of every shipped scenario (type, scenario, field key, component path, index, expression); one definition per scenario in the part modules -/")
    L.append("def perScenario : List (List Leaf) := [" + ", ".join(names) + "]\n")
    L.append("def leaves : List Leaf := perScenario.flatten\n")
    L.append(f"def scenarioCount : Nat := {len(scen)}\n")
    L.append("def untranslated : List String := [" + ", ".join(lean_str(u["item"] + ": " + u["why"]) for u in unt if u["extractor"] == "T8") + "]\n")
    L.append("end SwiftMT.Generated.Scenarios")
    data = {"scenarios": len(scen), "leaves": sum(len(s["leaves"]) for s in scen),
            "fake_langs": [{"kind": k, "args": a, "chars": l[0], "min": l[1], "max": l[2]} for k, a, l in langs], "fake_src": src_dir}
    return out_files + [("Scenarios", "\n".join(L) + "\n", data)]
