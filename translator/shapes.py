"""T3 (serde shapes): every `pub struct` / `pub enum` of src/messages, src/fields, src/headers that derives Serialize,
with the serde attributes that decide its JSON form: rename, flatten, skip_serializing_if, default, with, untagged, tag.
Output: Generated/Shapes.lean (StructDecl / EnumDecl lists) — the data the JSON model (C08) and the rule models (C04,
which read a message through its JSON form) are interpreted over.  Closed attribute set: anything else is reported as
untranslated."""
import glob
import os
import re

KNOWN_ATTRS = {"rename", "flatten", "skip_serializing_if", "default", "with", "untagged", "tag", "rename_all", "serialize_with", "deserialize_with"}


def lean_str(s):
    return '"' + s.replace("\\", "\\\\").replace('"', '\\"') + '"'


def strip_comments_and_tests(src):
    # drop `#[cfg(test)] mod … { … }` blocks (they may sit in the middle of a file)
    while True:
        i = src.find("#[cfg(test)]")
        if i < 0:
            break
        b = src.find("{", i)
        if b < 0:
            src = src[:i]
            break
        depth, j = 1, b + 1
        while depth and j < len(src):
            depth += {"{": 1, "}": -1}.get(src[j], 0)
            j += 1
        src = src[:i] + src[j:]
    out = []
    for line in src.splitlines():
        s = line.strip()
        if s.startswith("//"):
            continue
        # trailing comments (no string literal with // occurs on declaration lines)
        if "//" in line and '"' not in line.split("//")[0][-1:]:
            line = line.split("//")[0]
        out.append(line)
    return "\n".join(out)


def parse_serde(attr_text, item, unt):
    """attr_text: inside of #[serde(...)] → dict"""
    d = {}
    sk = re.search(r'skip_serializing_if\s*=\s*"([^"]*)"', attr_text)
    if sk:
        d["skip_pred"] = sk.group(1)
        attr_text = attr_text.replace(sk.group(0), "")
    for part in re.findall(r'(\w+)(?:\s*=\s*"([^"]*)")?', attr_text):
        k, v = part
        if k in ("Option", "is_none", "Vec", "is_empty"):      # pieces of a skip_serializing_if path already captured
            continue
        if k not in KNOWN_ATTRS:
            unt.append({"item": item, "why": f"serde attribute {k} outside the recognised set", "extractor": "T3s"})
            continue
        d[k] = v if v != "" else True
    return d


def classify(ty):
    ty = ty.replace(" ", "")
    m = re.fullmatch(r"Option<Vec<(.+)>>", ty)
    if m:
        return "optVec", m.group(1)
    m = re.fullmatch(r"Option<(.+)>", ty)
    if m:
        return "opt", m.group(1)
    m = re.fullmatch(r"Vec<(.+)>", ty)
    if m:
        return "vec", m.group(1)
    return "req", ty


def generate(repo, unt):
    structs, enums, aliases = [], [], []
    paths = sorted(glob.glob(os.path.join(repo, "src/messages/mt*.rs"))) + sorted(glob.glob(os.path.join(repo, "src/fields/field[0-9]*.rs"))) + \
        [os.path.join(repo, "src/headers/mod.rs"), os.path.join(repo, "src/swift_message.rs"), os.path.join(repo, "src/parsed_message.rs")]
    for path in paths:
        try:
            src = strip_comments_and_tests(open(path, encoding="utf-8").read())
        except OSError:
            continue
        fname = os.path.basename(path)
        for am in re.finditer(r"^pub type (\w+)\s*=\s*(\w+)\s*;", src, re.M):
            aliases.append((am.group(1), am.group(2)))
        # items with their preceding attribute block
        for m in re.finditer(r"((?:#\[[^\n]*\]\s*\n)*)pub (struct|enum) (\w+)(?:<[^>{]*>)?\s*\{", src):
            attrs, kind, name = m.group(1), m.group(2), m.group(3)
            if "Serialize" not in attrs:
                continue
            # body: up to the matching brace
            depth, j = 1, m.end()
            while depth and j < len(src):
                depth += {"{": 1, "}": -1}.get(src[j], 0)
                j += 1
            body = src[m.end():j - 1]
            item_attrs = {}
            for a in re.findall(r"#\[serde\(([^\]]*)\)\]", attrs):
                item_attrs.update(parse_serde(a, f"{fname}:{name}", unt))
            if kind == "struct":
                fields = []
                pend = {}
                for line in body.splitlines():
                    s = line.strip()
                    if not s:
                        continue
                    a = re.match(r"#\[serde\((.*)\)\]$", s)
                    if a:
                        pend.update(parse_serde(a.group(1), f"{fname}:{name}", unt))
                        continue
                    if s.startswith("#["):
                        continue
                    f = re.match(r"pub (\w+)\s*:\s*(.+?),?$", s)
                    if f:
                        k, inner = classify(f.group(2))
                        fields.append({"name": f.group(1), "key": pend.get("rename", f.group(1)) if not pend.get("flatten") else "",
                                       "flatten": bool(pend.get("flatten")), "skip": pend.get("skip_pred") == "Option::is_none", "skip_empty": pend.get("skip_pred", "").endswith("is_empty"), "default": "default" in pend,
                                       "with": pend.get("with", "") or "", "ty": inner, "kind": k})
                        pend = {}
                    elif not s.startswith(("}", "{")):
                        unt.append({"item": f"{fname}:{name}", "why": f"unrecognised struct line: {s[:60]}", "extractor": "T3s"})
                structs.append({"name": name, "file": fname, "fields": fields})
            else:
                variants = []
                pend = {}
                for line in body.splitlines():
                    s = line.strip()
                    if not s:
                        continue
                    a = re.match(r"#\[serde\((.*)\)\]$", s)
                    if a:
                        pend.update(parse_serde(a.group(1), f"{fname}:{name}", unt))
                        continue
                    if s.startswith("#["):
                        continue
                    v = re.match(r"(\w+)\s*\(\s*(?:Box<)?([\w<>]+?)>?\s*\),?$", s)
                    if v:
                        variants.append({"name": v.group(1), "key": pend.get("rename", v.group(1)), "payload": v.group(2)})
                        pend = {}
                    else:
                        u = re.match(r"(\w+),?$", s)
                        if u:
                            variants.append({"name": u.group(1), "key": pend.get("rename", u.group(1)), "payload": ""})
                            pend = {}
                        else:
                            unt.append({"item": f"{fname}:{name}", "why": f"unrecognised enum line: {s[:60]}", "extractor": "T3s"})
                enums.append({"name": name, "file": fname, "untagged": bool(item_attrs.get("untagged")), "tag": item_attrs.get("tag", "") or "", "variants": variants})
    L = ["namespace SwiftMT.Generated.Shapes\n",
         "inductive Kind where\n  | req | opt | vec | optVec\n  deriving Repr, DecidableEq\n",
         "structure FieldDecl where\n  name : String\n  /-- JSON key (serde rename, else the Rust name); empty for a flattened field -/\n  key : String\n  flatten : Bool\n  skipIfNone : Bool\n  dflt : Bool\n  withCodec : String\n  ty : String\n  kind : Kind\n  deriving Repr\n",
         "structure StructDecl where\n  name : String\n  fields : List FieldDecl\n  deriving Repr\n",
         "structure VariantDecl where\n  name : String\n  key : String\n  payload : String\n  deriving Repr\n",
         "structure EnumDecl where\n  name : String\n  untagged : Bool\n  tag : String\n  variants : List VariantDecl\n  deriving Repr\n",
         "def structs : List StructDecl := ["]
    rows = []
    for s in structs:
        fs = ", ".join(f"⟨{lean_str(f['name'])}, {lean_str(f['key'])}, {'true' if f['flatten'] else 'false'}, {'true' if f['skip'] else 'false'}, "
                       f"{'true' if f['default'] else 'false'}, {lean_str(f['with'])}, {lean_str(f['ty'])}, .{f['kind']}⟩" for f in s["fields"])
        rows.append(f"  ⟨{lean_str(s['name'])}, [{fs}]⟩")
    L.append(",\n".join(rows))
    L.append("]\n")
    L.append("def enums : List EnumDecl := [")
    rows = []
    for e in enums:
        vs = ", ".join(f"⟨{lean_str(v['name'])}, {lean_str(v['key'])}, {lean_str(v['payload'])}⟩" for v in e["variants"])
        rows.append(f"  ⟨{lean_str(e['name'])}, {'true' if e['untagged'] else 'false'}, {lean_str(e['tag'])}, [{vs}]⟩")
    L.append(",\n".join(rows))
    L.append("]\n")
    L.append("/-- `pub type A = B;` -/\ndef aliases : List (String × String) := [" + ", ".join(f"({lean_str(a)}, {lean_str(b)})" for a, b in aliases) + "]\n")
    L.append("def untranslated : List String := [" + ", ".join(lean_str(u["item"] + ": " + u["why"]) for u in unt if u["extractor"] == "T3s") + "]\n")
    L.append("end SwiftMT.Generated.Shapes")
    return [("Shapes", "\n".join(L) + "\n", {"structs": structs, "enums": enums, "aliases": aliases})]
