"""Minimal Rust lexer + token-tree utilities for the translator (stdlib only).

It does not type-check or evaluate Rust.  It produces a flat token list (comments removed) and offers
helpers to find items (`fn`, `impl`, `match` arms) by bracket matching.  Every extractor built on top
accepts a closed set of shapes and raises `Untranslatable` on anything else.
"""
import re


class Untranslatable(Exception):
    def __init__(self, item, why):
        super().__init__(f"{item}: {why}")
        self.item = item
        self.why = why


class Tok:
    __slots__ = ("kind", "text", "line")

    def __init__(self, kind, text, line):
        self.kind = kind      # id | num | str | char | life | punct
        self.text = text
        self.line = line

    def __repr__(self):
        return f"{self.kind}:{self.text!r}@{self.line}"


_ID = re.compile(r"[A-Za-z_][A-Za-z0-9_]*")
_NUM = re.compile(r"[0-9][0-9A-Za-z_\.]*")
_PUNCT3 = ("..=", "...")
_PUNCT2 = ("::", "->", "=>", "==", "!=", "<=", ">=", "&&", "||", "+=", "-=", "*=", "/=", "..", "|=", "&=", "^=", "%=")


def lex(src):
    toks = []
    i, n, line = 0, len(src), 1
    while i < n:
        c = src[i]
        if c == "\n":
            line += 1
            i += 1
            continue
        if c in " \t\r":
            i += 1
            continue
        if src.startswith("//", i):
            j = src.find("\n", i)
            i = n if j < 0 else j
            continue
        if src.startswith("/*", i):
            depth, j = 1, i + 2
            while j < n and depth:
                if src.startswith("/*", j):
                    depth += 1
                    j += 2
                elif src.startswith("*/", j):
                    depth -= 1
                    j += 2
                else:
                    if src[j] == "\n":
                        line += 1
                    j += 1
            i = j
            continue
        # raw strings r"..." r#"..."#, byte strings b"..."
        m = re.match(r"b?r(#*)\"", src[i:])
        if m:
            hashes = m.group(1)
            start = i + m.end()
            end = src.find('"' + hashes, start)
            if end < 0:
                raise Untranslatable("lexer", f"unterminated raw string at line {line}")
            text = src[start:end]
            toks.append(Tok("str", text, line))
            line += src.count("\n", i, end)
            i = end + 1 + len(hashes)
            continue
        if c == '"' or (c == "b" and i + 1 < n and src[i + 1] == '"'):
            j = i + (2 if c == "b" else 1)
            out = []
            while j < n and src[j] != '"':
                if src[j] == "\\":
                    e = src[j + 1]
                    if e == "n":
                        out.append("\n")
                    elif e == "r":
                        out.append("\r")
                    elif e == "t":
                        out.append("\t")
                    elif e == "0":
                        out.append("\0")
                    elif e in "\\\"'":
                        out.append(e)
                    elif e == "u":
                        k = src.index("}", j)
                        out.append(chr(int(src[j + 3:k], 16)))
                        j = k - 1
                    elif e == "x":
                        out.append(chr(int(src[j + 2:j + 4], 16)))
                        j += 2
                    elif e == "\n":
                        # line continuation: skip following whitespace
                        k = j + 2
                        while k < n and src[k] in " \t\n\r":
                            if src[k] == "\n":
                                line += 1
                            k += 1
                        line += 1
                        j = k - 2
                    else:
                        out.append("\\" + e)
                    j += 2
                else:
                    if src[j] == "\n":
                        line += 1
                    out.append(src[j])
                    j += 1
            toks.append(Tok("str", "".join(out), line))
            i = j + 1
            continue
        if c == "'":
            # char literal or lifetime
            m = re.match(r"'(\\.[^']*|[^'\\])'", src[i:])
            if m:
                body = m.group(1)
                if body.startswith("\\"):
                    e = body[1]
                    body = {"n": "\n", "r": "\r", "t": "\t", "0": "\0", "\\": "\\", "'": "'", '"': '"'}.get(e, body)
                    if e == "u":
                        body = chr(int(m.group(1)[3:-1], 16))
                toks.append(Tok("char", body, line))
                i += m.end()
                continue
            m = re.match(r"'[A-Za-z_][A-Za-z0-9_]*", src[i:])
            if m:
                toks.append(Tok("life", m.group(0), line))
                i += m.end()
                continue
            raise Untranslatable("lexer", f"stray quote at line {line}")
        m = _ID.match(src, i)
        if m:
            toks.append(Tok("id", m.group(0), line))
            i = m.end()
            continue
        m = _NUM.match(src, i)
        if m:
            t = m.group(0)
            # do not swallow a range operator `0..5` or a method call `1.max(..)`
            if ".." in t:
                t = t[: t.index("..")]
            toks.append(Tok("num", t, line))
            i += len(t)
            continue
        for p in _PUNCT3:
            if src.startswith(p, i):
                toks.append(Tok("punct", p, line))
                i += 3
                break
        else:
            for p in _PUNCT2:
                if src.startswith(p, i):
                    toks.append(Tok("punct", p, line))
                    i += 2
                    break
            else:
                toks.append(Tok("punct", c, line))
                i += 1
    return toks


OPEN = {"(": ")", "[": "]", "{": "}"}
CLOSE = {")", "]", "}"}


def match_close(toks, i):
    """toks[i] is an opening bracket; return index of its matching close."""
    assert toks[i].kind == "punct" and toks[i].text in OPEN, toks[i]
    depth = 0
    for j in range(i, len(toks)):
        t = toks[j]
        if t.kind == "punct":
            if t.text in OPEN:
                depth += 1
            elif t.text in CLOSE:
                depth -= 1
                if depth == 0:
                    return j
    raise Untranslatable("lexer", f"unbalanced bracket opened at line {toks[i].line}")


def is_p(t, text):
    return t.kind == "punct" and t.text == text


def is_id(t, text=None):
    return t.kind == "id" and (text is None or t.text == text)


def find_fns(toks, name, lo=0, hi=None):
    """Yield (sig_start, body_open, body_close) for every `fn name` between lo and hi."""
    hi = len(toks) if hi is None else hi
    i = lo
    while i < hi - 1:
        if is_id(toks[i], "fn") and is_id(toks[i + 1], name):
            j = i + 2
            # skip to the body's `{` (first `{` at bracket depth 0 after the parameter list)
            depth = 0
            while j < hi:
                t = toks[j]
                if t.kind == "punct":
                    if t.text in "([":
                        depth += 1
                    elif t.text in ")]":
                        depth -= 1
                    elif t.text == "{" and depth == 0:
                        break
                    elif t.text == ";" and depth == 0:
                        j = None
                        break
                j += 1
            if j is None or j >= hi:
                i += 2
                continue
            k = match_close(toks, j)
            yield (i, j, k)
            i = k + 1
        else:
            i += 1


def find_impls(toks):
    """Yield (header_tokens_text, body_open, body_close) for each top-level `impl`."""
    i = 0
    n = len(toks)
    while i < n:
        if is_id(toks[i], "impl"):
            j = i + 1
            while j < n and not is_p(toks[j], "{"):
                j += 1
            k = match_close(toks, j)
            yield (" ".join(t.text for t in toks[i + 1:j]), j, k)
            i = k + 1
        else:
            i += 1


def text(toks, lo, hi):
    """Canonical single-space rendering of toks[lo:hi]; strings are rendered as "…" with \\n escapes."""
    out = []
    for t in toks[lo:hi]:
        if t.kind == "str":
            out.append('"' + t.text.replace("\\", "\\\\").replace("\n", "\\n").replace("\r", "\\r").replace('"', '\\"') + '"')
        elif t.kind == "char":
            out.append("'" + t.text.replace("\n", "\\n") + "'")
        else:
            out.append(t.text)
    return " ".join(out)


def split_top(toks, lo, hi, sep):
    """Split toks[lo:hi] at top-level occurrences of punct `sep`; returns list of (a, b) index ranges."""
    parts = []
    depth = 0
    start = lo
    i = lo
    while i < hi:
        t = toks[i]
        if t.kind == "punct":
            if t.text in OPEN:
                depth += 1
            elif t.text in CLOSE:
                depth -= 1
            elif t.text == sep and depth == 0:
                parts.append((start, i))
                start = i + 1
        i += 1
    if start < hi:
        parts.append((start, hi))
    return parts


def match_arms(toks, open_i):
    """toks[open_i] is the `{` of a match body.  Returns list of (pat_lo, pat_hi, body_lo, body_hi)."""
    close = match_close(toks, open_i)
    arms = []
    i = open_i + 1
    while i < close:
        # pattern up to top-level `=>`
        depth = 0
        j = i
        while j < close:
            t = toks[j]
            if t.kind == "punct":
                if t.text in OPEN:
                    depth += 1
                elif t.text in CLOSE:
                    depth -= 1
                elif t.text == "=>" and depth == 0:
                    break
            j += 1
        if j >= close:
            break
        pat = (i, j)
        b = j + 1
        if is_p(toks[b], "{"):
            e = match_close(toks, b)
            body = (b + 1, e)
            i = e + 1
            if i < close and is_p(toks[i], ","):
                i += 1
        else:
            depth = 0
            e = b
            while e < close:
                t = toks[e]
                if t.kind == "punct":
                    if t.text in OPEN:
                        depth += 1
                    elif t.text in CLOSE:
                        depth -= 1
                    elif t.text == "," and depth == 0:
                        break
                e += 1
            body = (b, e)
            i = e + 1
        arms.append((pat[0], pat[1], body[0], body[1]))
    return arms
