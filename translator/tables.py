"""T5: literal tables and call-site inventories regenerated from the source.

  * date construction sites (C11): where a NaiveDate / NaiveTime is built from digits outside test code
  * currency precision table and commodity list (C06)
  * block-3 / block-5 tag lists: parsed vs displayed (C10)
  * reject / return / cover code words per type (C17)
"""
import glob
import os
import re

from rslex import lex, Untranslatable, find_fns, text, is_p, is_id, match_close, match_arms


def lean_str(s):
    return '"' + s.replace("\\", "\\\\").replace('"', '\\"') + '"'


def strip_tests(toks):
    """Remove `#[cfg(test)] mod name { … }` items."""
    out = []
    i = 0
    n = len(toks)
    while i < n:
        if is_p(toks[i], "#") and text(toks, i, i + 7) == "# [ cfg ( test ) ]" and is_id(toks[i + 7], "mod"):
            j = i + 8
            while not is_p(toks[j], "{"):
                j += 1
            i = match_close(toks, j) + 1
            continue
        out.append(toks[i])
        i += 1
    return out


def date_sites(repo, unt):
    sites = []
    for path in sorted(glob.glob(os.path.join(repo, "src/fields/*.rs"))):
        toks = strip_tests(lex(open(path, encoding="utf-8").read()))
        t = text(toks, 0, len(toks))
        fn = os.path.basename(path)
        for what, rx in (("from_ymd_opt", r"NaiveDate :: from_ymd_opt \("), ("from_hms_opt", r"NaiveTime :: from_hms_opt \("),
                         ("century", r"\b(?:1900|2000) \+")):
            for _ in re.finditer(rx, t):
                sites.append((fn, what))
    return sites


def currency_table(repo, unt):
    toks = lex(open(os.path.join(repo, "src/fields/swift_utils.rs"), encoding="utf-8").read())
    rows, default = [], None
    try:
        (_, bo, bc), = list(find_fns(toks, "get_currency_decimals"))
        if not (is_id(toks[bo + 1], "match") and is_id(toks[bo + 2], "currency") and is_p(toks[bo + 3], "{")):
            raise Untranslatable("get_currency_decimals", "body is not `match currency {`")
        for (pl, ph, bl, bh) in match_arms(toks, bo + 3):
            pat = text(toks, pl, ph)
            body = text(toks, bl, bh)
            if not re.fullmatch(r"\d+", body):
                raise Untranslatable("get_currency_decimals", f"arm value {body!r}")
            if pat == "_":
                default = int(body)
                continue
            for alt in pat.split(" | "):
                m = re.fullmatch(r'"([A-Z]{3})"', alt)
                if not m:
                    raise Untranslatable("get_currency_decimals", f"pattern {alt!r}")
                rows.append((m.group(1), int(body)))
        if default is None:
            raise Untranslatable("get_currency_decimals", "no default arm")
        t = text(toks, 0, len(toks))
        m = re.search(r"const COMMODITY_CURRENCIES : & \[ & str \] = & \[ ([^\]]*) \] ;", t)
        if not m:
            raise Untranslatable("COMMODITY_CURRENCIES", "not found")
        commodity = re.findall(r'"([A-Z]{3})"', m.group(1))
    except Untranslatable as e:
        unt.append({"item": e.item, "why": e.why, "extractor": "T5"})
        return {"rows": [], "default": 2, "commodity": []}
    except Exception as e:
        unt.append({"item": "get_currency_decimals", "why": f"{type(e).__name__}: {e}", "extractor": "T5"})
        return {"rows": [], "default": 2, "commodity": []}
    return {"rows": rows, "default": default, "commodity": commodity}


def header_tags(repo, unt):
    """Block-3 / block-5 tags that `parse` reads and that `Display` writes."""
    out = {"b3_parse": [], "b3_display": [], "b5_parse": [], "b5_display": []}
    try:
        toks = lex(open(os.path.join(repo, "src/headers/mod.rs"), encoding="utf-8").read())
        from rslex import find_impls
        for hdr, bo, bc in find_impls(toks):
            for ty, key in (("UserHeader", "b3"), ("Trailer", "b5")):
                if hdr == ty:
                    for _, fo, fc in find_fns(toks, "parse", bo, bc):
                        lits = [t.text for t in toks[fo:fc] if t.kind == "str"]
                        tags = []
                        for l in lits:
                            m = re.fullmatch(r"\{(\w+)[:}]", l)
                            if m and m.group(1) not in tags:
                                tags.append(m.group(1))
                        out[key + "_parse"] = tags
                elif hdr == f"std :: fmt :: Display for {ty}":
                    for _, fo, fc in find_fns(toks, "fmt", bo, bc):
                        lits = [t.text for t in toks[fo:fc] if t.kind == "str"]
                        tags = []
                        for l in lits:
                            for m in re.finditer(r"\{\{?(\w+)[:}]", l):
                                if m.group(1) not in tags and not m.group(1)[0].islower():
                                    tags.append(m.group(1))
                        out[key + "_display"] = tags
        for k, v in out.items():
            if not v:
                raise Untranslatable("headers/mod.rs", f"no tags found for {k}")
    except Untranslatable as e:
        unt.append({"item": e.item, "why": e.why, "extractor": "T5"})
    except Exception as e:
        unt.append({"item": "header tags", "why": f"{type(e).__name__}: {e}", "extractor": "T5"})
    return out


def classify_tables(repo, unt):
    """Code words used by has_reject_codes / has_return_codes / is_cover_message per type, the MUR words of
    SwiftMessage, and the `method` decision chain of every arm of the parse plugin."""
    res = {"reject": {}, "return": {}, "cover": {}, "mur": {}, "chains": {}}
    try:
        for ty in (103, 202, 205):
            toks = strip_tests(lex(open(os.path.join(repo, f"src/messages/mt{ty}.rs"), encoding="utf-8").read()))
            for fn, key in (("has_reject_codes", "reject"), ("has_return_codes", "return"), ("is_cover_message", "cover")):
                fns = list(find_fns(toks, fn))
                if not fns:
                    if key == "cover" and ty == 103:
                        continue
                    raise Untranslatable(f"MT{ty}::{fn}", "not found")
                _, fo, fc = fns[0]
                body = text(toks, fo + 1, fc)
                words = re.findall(r'line \. contains \( "([^"]*)" \)', body)
                other = re.sub(r'line \. contains \( "[^"]*" \)', "", body)
                if "contains" in other or "starts_with" in other or "ends_with" in other or "matches" in other:
                    raise Untranslatable(f"MT{ty}::{fn}", "text test outside the recognised `line.contains(\"…\")` shape")
                if key == "cover" and not words:
                    if "sequence_b" not in body:
                        raise Untranslatable(f"MT{ty}::{fn}", "neither code words nor a sequence-B test")
                    words = ["<sequence-B>"]
                res[key][ty] = words
        toks = lex(open(os.path.join(repo, "src/swift_message.rs"), encoding="utf-8").read())
        for fn, key in (("has_reject_codes", "reject"), ("has_return_codes", "return")):
            (_, fo, fc), = list(find_fns(toks, fn))
            body = text(toks, fo + 1, fc)
            m = re.findall(r'mur \. to_uppercase \( \) \. contains \( "([^"]*)" \)', body)
            if len(m) != 1:
                raise Untranslatable(f"SwiftMessage::{fn}", "MUR test shape")
            order = re.findall(r"downcast_ref :: < crate :: messages :: (MT\d+) >", body)
            res["mur"][key] = {"word": m[0], "dispatch": order}
        # plugin chains
        toks = lex(open(os.path.join(repo, "src/plugin/parse.rs"), encoding="utf-8").read())
        (_, bo, bc), = list(find_fns(toks, "parse_swift_mt"))
        mi = None
        for i in range(bo, bc):
            if is_id(toks[i], "match") and text(toks, i, i + 7) == "match message_type . as_str ( ) {":
                mi = i + 6
        for (pl, ph, bl, bh) in match_arms(toks, mi):
            pat = text(toks, pl, ph)
            body = text(toks, bl, bh)
            m = re.fullmatch(r'"(\d{3})"', pat)
            if not m:
                continue
            code = int(m.group(1))
            mm = re.search(r"method = (.*?) ; (?:debug !|serde_json)", body)
            if not mm:
                raise Untranslatable(f"parse_swift_mt arm {code}", "no method assignment")
            expr = mm.group(1)
            var = re.match(r"let Some \( (\w+) \)", body).group(1)
            chain = []
            if re.fullmatch(r'"(\w+)" \. to_string \( \)', expr):
                chain.append(([], re.fullmatch(r'"(\w+)" \. to_string \( \)', expr).group(1)))
            else:
                rest = expr
                while True:
                    m1 = re.match(r'(?:else )?if (.*?) \{ "(\w+)" \. to_string \( \) \} ', rest + " ")
                    if m1:
                        cond, meth = m1.group(1), m1.group(2)
                        atoms = []
                        for a in cond.split(" || "):
                            a = a.strip()
                            ma = re.fullmatch(re.escape(var) + r" \. (has_reject_codes|has_return_codes|is_stp_message|is_cover_message) \( \)", a)
                            mb = re.fullmatch(re.escape(var) + r' \. user_header \. as_ref \( \) \. and_then \( \| h \| h \. validation_flag \. as_ref \( \) \) \. map \( \| flag \| flag \. as_str \( \) == "(\w+)" \) \. unwrap_or \( false \)', a)
                            if ma:
                                atoms.append({"has_reject_codes": "rej", "has_return_codes": "ret", "is_stp_message": "stp", "is_cover_message": "cov"}[ma.group(1)])
                            elif mb:
                                atoms.append("flag:" + mb.group(1))
                            else:
                                raise Untranslatable(f"parse_swift_mt arm {code}", f"condition atom {a[:80]!r}")
                        chain.append((atoms, meth))
                        rest = rest[m1.end():].lstrip()
                        continue
                    m2 = re.fullmatch(r'else \{ "(\w+)" \. to_string \( \) \}', rest.strip())
                    if m2:
                        chain.append(([], m2.group(1)))
                        break
                    raise Untranslatable(f"parse_swift_mt arm {code}", f"method expression tail {rest[:80]!r}")
            res["chains"][code] = chain
    except Untranslatable as e:
        unt.append({"item": e.item, "why": e.why, "extractor": "T5"})
    except Exception as e:
        unt.append({"item": "classification tables", "why": f"{type(e).__name__}: {e}", "extractor": "T5"})
    return res


def chars(s):
    return "[" + ", ".join("'" + c + "'" for c in s) + "]"


def generate(repo, unt):
    ds = date_sites(repo, unt)
    cur = currency_table(repo, unt)
    ht = header_tags(repo, unt)
    cl = classify_tables(repo, unt)
    L = ["namespace SwiftMT.Generated.Tables\n"]
    L.append("/-- (file, kind) of every place outside test code where a date/time value is built from numbers or a century is added. -/")
    L.append("def dateSites : List (String × String) := [" + ", ".join(f"({lean_str(a)}, {lean_str(b)})" for a, b in ds) + "]\n")
    L.append("/-- the same, as counts per (file, kind) in a kernel-friendly form: file index = position in `dateFiles`. -/")
    files = sorted({a for a, _ in ds})
    kinds = ["from_ymd_opt", "from_hms_opt", "century"]
    L.append("def dateFiles : List String := [" + ", ".join(lean_str(f) for f in files) + "]")
    L.append("def dateSiteCounts : List (Nat × Nat × Nat) := [" + ", ".join(
        f"({files.index(f)}, {k}, {sum(1 for a, b in ds if a == f and b == kinds[k])})" for f in files for k in range(3) if any(a == f and b == kinds[k] for a, b in ds)) + "]\n")
    L.append("/-- `get_currency_decimals`: explicit arms (currency as three characters) and the default. -/")
    L.append("def currencyDecimals : List (List Char × Nat) := [" + ", ".join(f"({chars(c)}, {d})" for c, d in cur["rows"]) + "]")
    L.append(f"def currencyDefault : Nat := {cur['default']}")
    L.append("def commodityCurrencies : List (List Char) := [" + ", ".join(chars(c) for c in cur["commodity"]) + "]\n")
    L.append("/-- block-3 tags read by `UserHeader::parse` / written by its `Display`; block-5 tags likewise (as characters). -/")
    L.append("def block3Parsed : List Nat := [" + ", ".join(str(int(t)) for t in ht["b3_parse"] if t.isdigit()) + "]")
    L.append("def block3Displayed : List Nat := [" + ", ".join(str(int(t)) for t in ht["b3_display"] if t.isdigit()) + "]")
    L.append("def block5Parsed : List (List Char) := [" + ", ".join(chars(t) for t in ht["b5_parse"]) + "]")
    L.append("def block5Displayed : List (List Char) := [" + ", ".join(chars(t) for t in ht["b5_display"]) + "]\n")
    METH = {"reject": 0, "return": 1, "cover": 2, "stp": 3, "normal": 4}
    def atom(a):
        return {"rej": ".rej", "ret": ".ret", "stp": ".stp", "cov": ".cov"}.get(a) or f"(.flag {chars(a.split(':', 1)[1])})"
    L.append("/-- code words searched in field-72 lines, per message type -/")
    for key in ("reject", "return", "cover"):
        L.append(f"def {key}Words : List (Nat × List (List Char)) := [" + ", ".join(f"({ty}, [" + ", ".join(chars(w) for w in ws) + "])" for ty, ws in sorted(cl[key].items())) + "]")
    L.append("def murRejectWord : List Char := " + chars(cl["mur"].get("reject", {}).get("word", "")))
    L.append("def murReturnWord : List Char := " + chars(cl["mur"].get("return", {}).get("word", "")))
    L.append("def murDispatch : List Nat := [" + ", ".join(x[2:] for x in cl["mur"].get("reject", {}).get("dispatch", [])) + "]")
    L.append("inductive Atom where | rej | ret | stp | cov | flag (v : List Char) deriving DecidableEq, Repr")
    L.append("/-- `method` decision chain of each arm of the parse plugin: first clause whose atoms' disjunction holds wins; methods: 0 reject, 1 return, 2 cover, 3 stp, 4 normal -/")
    L.append("def methodChains : List (Nat × List (List Atom × Nat)) := [" + ", ".join(
        f"({code}, [" + ", ".join("([" + ", ".join(atom(a) for a in atoms) + f"], {METH.get(m, 9)})" for atoms, m in chain) + "])" for code, chain in sorted(cl["chains"].items())) + "]\n")
    L.append("def untranslated : List String := [" + ", ".join(lean_str(u["item"] + ": " + u["why"]) for u in unt if u["extractor"] == "T5") + "]\n")
    L.append("end SwiftMT.Generated.Tables")
    return [("Tables", "\n".join(L) + "\n", {"date_sites": ds, "date_files": files, "currency": cur, "header_tags": ht, "classify": cl})]
