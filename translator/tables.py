"""T5: code tables (filled in later)."""
def generate(repo, unt):
    return []
