"""T5: literal tables and call-site inventories regenerated from the source.

  * date construction sites (C11): where a NaiveDate / NaiveTime is built from digits outside test code
  * currency precision table and commodity list (C06)
  * block-3 / block-5 tag lists: parsed vs displayed (C10)
  * reject / return / cover code words per type (C17)
"""
import glob
import os
import re

from rslex import lex, Untranslatable, find_fns, text, is_p, is_id, match_close, match_arms


def lean_str(s):
    return '"' + s.replace("\\", "\\\\").replace('"', '\\"') + '"'


def strip_tests(toks):
    """Remove `#[cfg(test)] mod name { … }` items."""
    out = []
    i = 0
    n = len(toks)
    while i < n:
        if is_p(toks[i], "#") and text(toks, i, i + 7) == "# [ cfg ( test ) ]" and is_id(toks[i + 7], "mod"):
            j = i + 8
            while not is_p(toks[j], "{"):
                j += 1
            i = match_close(toks, j) + 1
            continue
        out.append(toks[i])
        i += 1
    return out


def date_sites(repo, unt):
    sites = []
    for path in sorted(glob.glob(os.path.join(repo, "src/fields/*.rs"))):
        toks = strip_tests(lex(open(path, encoding="utf-8").read()))
        t = text(toks, 0, len(toks))
        fn = os.path.basename(path)
        for what, rx in (("from_ymd_opt", r"NaiveDate :: from_ymd_opt \("), ("from_hms_opt", r"NaiveTime :: from_hms_opt \("),
                         ("century", r"\b(?:1900|2000) \+")):
            for _ in re.finditer(rx, t):
                sites.append((fn, what))
    return sites


def currency_table(repo, unt):
    toks = lex(open(os.path.join(repo, "src/fields/swift_utils.rs"), encoding="utf-8").read())
    rows, default = [], None
    try:
        (_, bo, bc), = list(find_fns(toks, "get_currency_decimals"))
        if not (is_id(toks[bo + 1], "match") and is_id(toks[bo + 2], "currency") and is_p(toks[bo + 3], "{")):
            raise Untranslatable("get_currency_decimals", "body is not `match currency {`")
        for (pl, ph, bl, bh) in match_arms(toks, bo + 3):
            pat = text(toks, pl, ph)
            body = text(toks, bl, bh)
            if not re.fullmatch(r"\d+", body):
                raise Untranslatable("get_currency_decimals", f"arm value {body!r}")
            if pat == "_":
                default = int(body)
                continue
            for alt in pat.split(" | "):
                m = re.fullmatch(r'"([A-Z]{3})"', alt)
                if not m:
                    raise Untranslatable("get_currency_decimals", f"pattern {alt!r}")
                rows.append((m.group(1), int(body)))
        if default is None:
            raise Untranslatable("get_currency_decimals", "no default arm")
        t = text(toks, 0, len(toks))
        m = re.search(r"const COMMODITY_CURRENCIES : & \[ & str \] = & \[ ([^\]]*) \] ;", t)
        if not m:
            raise Untranslatable("COMMODITY_CURRENCIES", "not found")
        commodity = re.findall(r'"([A-Z]{3})"', m.group(1))
    except Untranslatable as e:
        unt.append({"item": e.item, "why": e.why, "extractor": "T5"})
        return {"rows": [], "default": 2, "commodity": []}
    except Exception as e:
        unt.append({"item": "get_currency_decimals", "why": f"{type(e).__name__}: {e}", "extractor": "T5"})
        return {"rows": [], "default": 2, "commodity": []}
    return {"rows": rows, "default": default, "commodity": commodity}


def header_tags(repo, unt):
    """Block-3 / block-5 tags that `parse` reads and that `Display` writes."""
    out = {"b3_parse": [], "b3_display": [], "b5_parse": [], "b5_display": []}
    try:
        toks = lex(open(os.path.join(repo, "src/headers/mod.rs"), encoding="utf-8").read())
        from rslex import find_impls
        for hdr, bo, bc in find_impls(toks):
            for ty, key in (("UserHeader", "b3"), ("Trailer", "b5")):
                if hdr == ty:
                    for _, fo, fc in find_fns(toks, "parse", bo, bc):
                        lits = [t.text for t in toks[fo:fc] if t.kind == "str"]
                        tags = []
                        for l in lits:
                            m = re.fullmatch(r"\{(\w+)[:}]", l)
                            if m and m.group(1) not in tags:
                                tags.append(m.group(1))
                        out[key + "_parse"] = tags
                elif hdr == f"std :: fmt :: Display for {ty}":
                    for _, fo, fc in find_fns(toks, "fmt", bo, bc):
                        lits = [t.text for t in toks[fo:fc] if t.kind == "str"]
                        tags = []
                        for l in lits:
                            for m in re.finditer(r"\{\{?(\w+)[:}]", l):
                                if m.group(1) not in tags and not m.group(1)[0].islower():
                                    tags.append(m.group(1))
                        out[key + "_display"] = tags
        for k, v in out.items():
            if not v:
                raise Untranslatable("headers/mod.rs", f"no tags found for {k}")
    except Untranslatable as e:
        unt.append({"item": e.item, "why": e.why, "extractor": "T5"})
    except Exception as e:
        unt.append({"item": "header tags", "why": f"{type(e).__name__}: {e}", "extractor": "T5"})
    return out


def chars(s):
    return "[" + ", ".join("'" + c + "'" for c in s) + "]"


def generate(repo, unt):
    ds = date_sites(repo, unt)
    cur = currency_table(repo, unt)
    ht = header_tags(repo, unt)
    L = ["namespace SwiftMT.Generated.Tables\n"]
    L.append("/-- (file, kind) of every place outside test code where a date/time value is built from numbers or a century is added. -/")
    L.append("def dateSites : List (String × String) := [" + ", ".join(f"({lean_str(a)}, {lean_str(b)})" for a, b in ds) + "]\n")
    L.append("/-- the same, as counts per (file, kind) in a kernel-friendly form: file index = position in `dateFiles`. -/")
    files = sorted({a for a, _ in ds})
    kinds = ["from_ymd_opt", "from_hms_opt", "century"]
    L.append("def dateFiles : List String := [" + ", ".join(lean_str(f) for f in files) + "]")
    L.append("def dateSiteCounts : List (Nat × Nat × Nat) := [" + ", ".join(
        f"({files.index(f)}, {k}, {sum(1 for a, b in ds if a == f and b == kinds[k])})" for f in files for k in range(3) if any(a == f and b == kinds[k] for a, b in ds)) + "]\n")
    L.append("/-- `get_currency_decimals`: explicit arms (currency as three characters) and the default. -/")
    L.append("def currencyDecimals : List (List Char × Nat) := [" + ", ".join(f"({chars(c)}, {d})" for c, d in cur["rows"]) + "]")
    L.append(f"def currencyDefault : Nat := {cur['default']}")
    L.append("def commodityCurrencies : List (List Char) := [" + ", ".join(chars(c) for c in cur["commodity"]) + "]\n")
    L.append("/-- block-3 tags read by `UserHeader::parse` / written by its `Display`; block-5 tags likewise (as characters). -/")
    L.append("def block3Parsed : List Nat := [" + ", ".join(str(int(t)) for t in ht["b3_parse"] if t.isdigit()) + "]")
    L.append("def block3Displayed : List Nat := [" + ", ".join(str(int(t)) for t in ht["b3_display"] if t.isdigit()) + "]")
    L.append("def block5Parsed : List (List Char) := [" + ", ".join(chars(t) for t in ht["b5_parse"]) + "]")
    L.append("def block5Displayed : List (List Char) := [" + ", ".join(chars(t) for t in ht["b5_display"]) + "]\n")
    L.append("def untranslated : List String := [" + ", ".join(lean_str(u["item"] + ": " + u["why"]) for u in unt if u["extractor"] == "T5") + "]\n")
    L.append("end SwiftMT.Generated.Tables")
    return [("Tables", "\n".join(L) + "\n", {"date_sites": ds, "date_files": files, "currency": cur, "header_tags": ht})]
