#!/usr/bin/env python3-vt
import json, jsonschema, glob, sys
jsonschema.validate(json.load(open('/verif/MANIFEST.json')), json.load(open('/root/.vp/MANIFEST.schema.json')))
s = json.load(open('/root/.vp/EVIDENCE.schema.json'))
for p in sorted(glob.glob('/verif/evidence/*.json')):
    jsonschema.validate(json.load(open(p)), s)
    print('ok', p)
print('manifest ok')
